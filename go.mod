module verif

go 1.24
