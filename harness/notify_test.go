package vharness

// The wake-up family (C03, C09): one state-changing call races a few submissions and then nothing
// else happens - no later Add, completion or control call can rescue a lost wake-up - so a job
// stranded by a missing or misplaced notification is still pending at the final quiescent point.

import (
	"fmt"
	"sync"
	"testing/synctest"
	"time"
)

type notifyCfg struct {
	WK     WK
	QK     QK
	Conc   int
	Mode   string // resume, restart, tune-up, drain, resume-after-wait, bind-first
	Pre    int    // jobs pending before the race
	Racing int    // submissions racing the call
	Prods  int
}

func (c notifyCfg) String() string {
	return fmt.Sprintf("wakeup mode=%s wk=%v qk=%v conc=%d pre=%d racing=%d prods=%d", c.Mode, c.WK, c.QK, c.Conc, c.Pre, c.Racing, c.Prods)
}

func epNotify(c *RunCtx, cfg notifyCfg) *Result {
	e := NewEnv(c.Prop)
	n := cfg.Conc + cfg.Pre + 1 + cfg.Racing
	k := NewKit(e, n)
	out := RunBubble(c.T, func(bid string) {
		s := NewSubject(cfg.WK, k.Work, cfg.Conc)
		var led *Ledger
		if cfg.QK.Adapter() {
			led = NewLedger(e, cfg.QK.Priority())
		}
		q := s.Bind(cfg.QK, led)
		next := 0
		add := func() {
			i := next
			next++
			k.Add(q, i)
		}
		gate := make(chan struct{})
		if cfg.Mode == "tune-up" {
			// every job holds its slot until the gate opens, so the executing count is exact
			for _, r := range k.Recs {
				r.Gate = gate
			}
		}
		var call func()
		var barrier string
		switch cfg.Mode {
		case "resume":
			s.W.Pause()
			for i := 0; i < cfg.Pre; i++ {
				add()
			}
			call = func() { k.Control(s.W, "Resume", 0) }
			barrier = "Pause"
		case "resume-after-wait":
			for i := 0; i < cfg.Pre; i++ {
				k.Recs[next].Work = time.Microsecond
				add()
			}
			k.Control(s.W, "PauseAndWait", 0)
			call = func() { k.Control(s.W, "Resume", 0) }
			barrier = "PauseAndWait"
		case "resume-during-completion":
			// conc jobs in flight under a plain Pause; they finish while Resume is called
			for i := 0; i < cfg.Conc; i++ {
				k.Recs[next].Gate = gate
				add()
			}
			for i := 0; i < cfg.Pre+1; i++ {
				add()
			}
			synctest.Wait()
			k.Control(s.W, "Pause", 0)
			call = func() {
				var w2 sync.WaitGroup
				w2.Add(2)
				go func() { defer w2.Done(); close(gate) }()
				go func() { defer w2.Done(); k.Control(s.W, "Resume", 0) }()
				w2.Wait()
			}
			barrier = "Pause"
		case "restart":
			s.W.Stop()
			for i := 0; i < cfg.Pre; i++ {
				add()
			}
			call = func() { k.Control(s.W, "Restart", 0) }
			barrier = "Stop"
		case "tune-up":
			for i := 0; i < cfg.Conc; i++ {
				k.Recs[next].Gate = gate
				add()
			}
			for i := 0; i < cfg.Pre; i++ {
				add()
			}
			call = func() { k.Control(s.W, "TunePool", cfg.Conc+2) }
		case "drain":
			for i := 0; i < cfg.Conc; i++ {
				k.Recs[next].Gate = gate
				add()
			}
			for i := 0; i < cfg.Pre; i++ {
				add()
			}
			call = func() { close(gate); gate = nil }
		}
		synctest.Wait()
		nBefore := next
		var wg sync.WaitGroup
		wg.Add(1)
		go func() { defer wg.Done(); call() }()
		per := (cfg.Racing + cfg.Prods - 1) / cfg.Prods
		var mu sync.Mutex
		for p := 0; p < cfg.Prods; p++ {
			wg.Add(1)
			go func() {
				defer wg.Done()
				for x := 0; x < per; x++ {
					mu.Lock()
					if next >= nBefore+cfg.Racing {
						mu.Unlock()
						return
					}
					i := next
					next++
					mu.Unlock()
					k.Add(q, i)
				}
			}()
		}
		if !k.Await(wg.Wait) {
			hangFail(e, "C06", cfg.Mode, bid)
			return
		}
		// nothing else happens: whatever is to run must run now
		time.Sleep(100 * time.Microsecond)
		synctest.Wait()
		if cfg.Mode == "tune-up" {
			// the enlarged pool must be used: conc+2 jobs (or all of them) execute while the first conc are gated
			want := min(cfg.Conc+2, next)
			if got := k.InFlight(); got != want {
				det := fmt.Sprintf("%s: %d jobs executing after TunePool(%d) with %d submitted, expected %d", cfg, got, cfg.Conc+2, next, want)
				e.Fail("C03", "no-progress-at-quiescence", "tune-up", det)
				e.Fail("C18", "tune-capacity", "up", det)
				if got > want {
					e.Fail("C02", "more-in-flight-than-model", "tune-up", det)
				}
			}
			close(gate)
			time.Sleep(100 * time.Microsecond)
			synctest.Wait()
		}
		for i := 0; i < next; i++ {
			r := k.Recs[i]
			if !r.OK {
				e.Fail("C01", "rejected-on-open-queue", "", fmt.Sprintf("%s: add %d rejected", cfg, i))
				continue
			}
			if runs := r.Runs.Load(); runs != 1 {
				det := fmt.Sprintf("%s: job %d (accepted at %d, status %s) ran %d times; worker %s pending=%d processing=%d; nothing can run any more", cfg, i, r.AddRet, statusOf(r), runs, s.W.Status(), s.W.NumPending(), s.W.NumProcessing())
				e.Fail("C03", "not-run-at-quiescence", cfg.Mode, det)
				e.Fail("C01", "lost", cfg.Mode, det)
				if barrier != "" {
					e.Fail("C09", "pending-not-resumed", cfg.Mode, det)
				}
				if cfg.QK == QDist || cfg.QK == QDistPrio {
					e.Fail("C13", "announced-not-processed", cfg.Mode, det)
				}
				break
			}
		}
		if p := s.W.NumPending(); p != 0 && !e.Failed() {
			e.Fail("C17", "pending-at-rest", "wakeup", fmt.Sprintf("%s: NumPending=%d at rest", cfg, p))
		}
		e.Nontrivial()
		if !k.Await(func() { s.W.Stop() }) {
			hangFail(e, "C06", "Stop(final)", bid)
			return
		}
		synctest.Wait()
	})
	if out.Kind == "hang" {
		e.Fail("C03", "hang", "wakeup/"+blockedLibFrames(out.Stacks), cfg.String()+": "+out.Msg+"\n"+out.Stacks)
	} else if out.Kind == "panic" {
		e.Fail(c.Prop, "harness-panic", "", cfg.String()+": "+out.Msg+"\n"+out.Stacks)
	}
	return e.Result(k.Sample(cfg.String()))
}

var notifyFuncs = []string{"Resume", "Restart", "TunePool", "start", "notifyToPullNextJobs", "goEventLoop", "processNextJob", "initPoolNode", "freePoolNode", "queue.Add", "Queue.Add", "Enqueue", "closeChannels", "handleQueueSubscription", "releaseWaiters", "Manager.Len", "Queue.Len"}

func notifyPrograms(c *RunCtx, nq, nt int) { notifyProgramsK(c, nq, nt, false) }

func notifyProgramsK(c *RunCtx, nq, nt int, distOnly bool) {
	modes := []string{"resume", "restart", "tune-up", "drain", "resume-after-wait", "resume-during-completion"}
	for v := 0; v < c.Q(nq, nt); v++ {
		c.Program(fmt.Sprintf("wakeup/%d", v), func(p *Prog) {
			r := p.Rng
			cfg := notifyCfg{WK: Pick(r, WPlain, WErr, WResult), QK: Pick(r, QFifo, QFifo, QPrio), Conc: Pick(r, 1, 1, 2, 3), Mode: modes[v%len(modes)], Pre: r.Intn(3), Racing: 1 + r.Intn(3), Prods: Pick(r, 1, 1, 2)}
			if distOnly {
				cfg.WK = WPlain
				cfg.QK = Pick(r, QDist, QDistPrio)
			} else if r.Chance(25) {
				cfg.WK = WPlain
				cfg.QK = Pick(r, QPers, QPersPrio, QDist, QDistPrio)
			}
			if (cfg.Mode == "resume" || cfg.Mode == "restart") && (v/len(modes))%2 == 0 {
				// nothing is pending when the call starts: the racing submissions are all there is to wake up for
				cfg.Pre = 0
			}
			p.Explore(func(pl Plan) *Result { return epNotify(c, cfg) },
				ExploreOpts{Base: 4, Noise: c.Q(20, 100), K: c.Q(3, 6), Funcs: anchoredOr(c, notifyFuncs), Pairs: c.Q(20, 120), MaxCases: c.Q(150, 2500)})
		})
	}
}
