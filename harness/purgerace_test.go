package vharness

// Two families in which a queue-level call races submissions (C10, C01, C05):
//   live purge: producers fill a paused worker's queue across a segment boundary while another goroutine
//               purges; afterwards every accepted job has either run once or is Closed - never neither;
//   close race: a queue of a running worker is closed while producers submit to it; everything that was
//               accepted runs, nothing that was refused does, and the worker's other queue is unaffected.

import (
	"fmt"
	"runtime"
	"sync"
	"sync/atomic"
	"testing/synctest"
	"time"

	"github.com/goptics/varmq"
)

type livePurgeCfg struct {
	WK      WK
	QK      QK
	N       int
	Prods   int
	PurgeAt []int // the purger calls Purge once the producers have got that many submissions accepted
	Paused  bool
}

func (c livePurgeCfg) String() string {
	return fmt.Sprintf("live-purge wk=%v qk=%v n=%d prods=%d purgeAt=%v paused=%v", c.WK, c.QK, c.N, c.Prods, c.PurgeAt, c.Paused)
}

func epLivePurge(c *RunCtx, cfg livePurgeCfg) *Result {
	e := NewEnv(c.Prop)
	e.Quiet = true
	runs := make([]atomic.Int32, cfg.N)
	hs := make([]varmq.EnqueuedJob, cfg.N)
	oks := make([]bool, cfg.N)
	out := RunBubble(c.T, func(bid string) {
		s := NewSubject(cfg.WK, func(j varmq.Job[int]) Outcome { runs[j.Data()].Add(1); return Outcome{} }, 2)
		q := s.Bind(cfg.QK, nil)
		if cfg.Paused {
			s.W.Pause()
		}
		var accepted atomic.Int64
		var wg sync.WaitGroup
		for p := 0; p < cfg.Prods; p++ {
			wg.Add(1)
			go func() {
				defer wg.Done()
				for i := p; i < cfg.N; i += cfg.Prods {
					h, ok := q.Add(i, i%3, "")
					hs[i], oks[i] = h, ok
					if ok {
						accepted.Add(1)
					}
				}
			}()
		}
		wg.Add(1)
		go func() {
			defer wg.Done()
			for _, at := range cfg.PurgeAt {
				for spin := 0; accepted.Load() < int64(at) && spin < 2_000_000; spin++ {
					runtime.Gosched()
				}
				q.Base.Purge()
			}
		}()
		wg.Wait()
		if cfg.Paused {
			s.W.Resume()
		}
		synctest.Wait()
		time.Sleep(time.Microsecond)
		synctest.Wait()
		e.Quiet = false
		ran, cancelled, lost, first := 0, 0, 0, -1
		for i := range hs {
			if !oks[i] {
				e.Fail("C01", "rejected-on-open-queue", "live-purge", fmt.Sprintf("%s: add %d refused", cfg, i))
				continue
			}
			n := runs[i].Load()
			st := hs[i].Status()
			switch {
			case n == 1:
				ran++
			case n == 0 && st == "Closed":
				cancelled++
			case n > 1:
				e.Fail("C01", "ran-twice", "live-purge", fmt.Sprintf("%s: job %d ran %d times", cfg, i, n))
			default:
				lost++
				if first < 0 {
					first = i
				}
			}
		}
		if lost > 0 {
			det := fmt.Sprintf("%s: %d accepted jobs neither ran nor were cancelled by the purge (first: job %d, status %s); %d ran, %d cancelled; NumPending=%d, worker %s", cfg, lost, first, hs[first].Status(), ran, cancelled, q.Base.NumPending(), s.W.Status())
			e.Fail("C10", "purge-drop", "live", det)
			e.Fail("C01", "lost", "live-purge", det)
			e.Fail("C05", "purged-waiters-not-released", "live", det)
		}
		if p := q.Base.NumPending(); p != 0 && lost == 0 {
			e.Fail("C17", "pending-at-rest", "live-purge", fmt.Sprintf("%s: NumPending=%d at rest", cfg, p))
		}
		k := NewKit(e, 0)
		if lost == 0 {
			if !k.Await(func() {
				for _, h := range hs {
					h.Wait()
				}
			}) {
				hangFail(e, "C05", "Wait-after-live-purge", bid)
				e.Fail("C10", "purged-waiters-blocked", "live", cfg.String())
				return
			}
		}
		if cancelled > 0 && ran > 0 {
			e.Nontrivial()
		}
		e.Stat("live_purge_cancelled", float64(cancelled))
		if lost == 0 {
			s.W.Stop()
			synctest.Wait()
		}
	})
	e.Quiet = false
	if out.Kind == "hang" || out.Kind == "panic" {
		e.Fail("C03", out.Kind, "live-purge/"+blockedLibFrames(out.Stacks), cfg.String()+": "+out.Msg)
	}
	rr := e.Result(map[string]any{"program": cfg.String()})
	return rr
}

func livePurgePrograms(c *RunCtx, nq, nt int) {
	for v := 0; v < c.Q(nq, nt); v++ {
		c.Program(fmt.Sprintf("live-purge/%d", v), func(p *Prog) {
			r := p.Rng
			cfg := livePurgeCfg{WK: Pick(r, WPlain, WErr, WResult), QK: Pick(r, QFifo, QFifo, QFifo, QPrio), N: Pick(r, 1100, 1300, 2700, 2700), Prods: Pick(r, 1, 1, 2, 3), Paused: r.Chance(70)}
			switch v % 4 {
			case 0:
				cfg.PurgeAt = []int{Pick(r, 1000, 1015, 1020, 1023)}
			case 1:
				cfg.PurgeAt = []int{1010, 1020, 1024}
			case 2:
				cfg.PurgeAt = []int{Pick(r, 2540, 2550, 2559)}
				cfg.N = 2700
			default:
				cfg.PurgeAt = []int{r.Intn(cfg.N), r.Intn(cfg.N)}
			}
			// the sites of the segment hand-over are first reached exactly at the first boundary
			p.Explore(func(pl Plan) *Result { return epLivePurge(c, cfg) },
				ExploreOpts{Base: 3, Noise: c.Q(4, 20), K: 2, Us: 800, Funcs: []string{"Queue.Enqueue", "NewChunk", "Queue.Purge", "PurgeValues", "Chunk"}, MaxCases: c.Q(40, 160)})
		})
	}
}

// ---------------------------------------------------------------- close race

type closeRaceCfg struct {
	WK     WK
	QK     QK
	Conc   int
	Rounds int
	Prods  int
	Second bool // a second queue keeps receiving jobs
	Batch  bool // producer 0 submits through AddAll
}

func (c closeRaceCfg) String() string {
	return fmt.Sprintf("close-race wk=%v qk=%v conc=%d rounds=%d prods=%d second=%v batch=%v", c.WK, c.QK, c.Conc, c.Rounds, c.Prods, c.Second, c.Batch)
}

func epCloseRace(c *RunCtx, cfg closeRaceCfg) *Result {
	e := NewEnv(c.Prop)
	e.Quiet = true
	per := 6
	n := cfg.Rounds * (cfg.Prods*per + 2)
	runs := make([]atomic.Int32, n)
	type sub struct {
		h  varmq.EnqueuedJob
		ok bool
		on bool // submitted at all
		ba bool // item of an AddAll batch: acceptance is not reported per item
	}
	subs := make([]sub, n)
	closedSeen := 0
	exitAt := make([]atomic.Int64, n)
	slow := make([]atomic.Bool, n)
	type batchRec struct {
		lo, hi  int
		waitRet int64
		pending int
		hung    bool
	}
	var bmu sync.Mutex
	var batches []*batchRec
	out := RunBubble(c.T, func(bid string) {
		s := NewSubject(cfg.WK, func(j varmq.Job[int]) Outcome {
			d := j.Data()
			runs[d].Add(1)
			if slow[d].Load() {
				time.Sleep(3 * time.Microsecond) // batch items take (virtual) time, so that an early Wait is visible
			}
			exitAt[d].Store(e.Tick())
			return Outcome{}
		}, cfg.Conc)
		var other *BoundQ
		if cfg.Second {
			other = s.Bind(QFifo, nil)
		}
		next := 0
		for round := 0; round < cfg.Rounds; round++ {
			q := s.Bind(cfg.QK, nil)
			var wg sync.WaitGroup
			var started atomic.Int32
			for p := 0; p < cfg.Prods; p++ {
				lo := next
				next += per
				wg.Add(1)
				go func() {
					defer wg.Done()
					started.Add(1)
					if cfg.Batch && p == 0 {
						items := make([]varmq.Item[int], per)
						for i := range items {
							items[i] = varmq.Item[int]{Data: lo + i}
							subs[lo+i].on, subs[lo+i].ba = true, true
							slow[lo+i].Store(true)
						}
						// acceptance is not reported per item; whatever part of the batch was accepted, Wait returns
						// once those items have finished, and not before
						b := q.AddAll(items)
						br := &batchRec{lo: lo, hi: lo + per}
						kk := NewKit(e, 0)
						if kk.Await(b.Wait) {
							br.waitRet = e.Tick()
							br.pending = b.NumPending()
						} else {
							br.hung = true
						}
						bmu.Lock()
						batches = append(batches, br)
						bmu.Unlock()
						return
					}
					for i := lo; i < lo+per; i++ {
						h, ok := q.Add(i, 0, "")
						subs[i] = sub{h: h, ok: ok, on: true}
						if i%2 == 0 {
							runtime.Gosched()
						}
					}
				}()
			}
			wg.Add(1)
			go func() {
				defer wg.Done()
				for started.Load() == 0 {
					runtime.Gosched()
				}
				for y := 0; y < round%4; y++ {
					runtime.Gosched()
				}
				q.Base.Close()
			}()
			if other != nil {
				for x := 0; x < 2; x++ {
					h, ok := other.Add(next, 0, "")
					subs[next] = sub{h: h, ok: ok, on: true}
					next++
				}
			}
			wg.Wait()
			// after Close returned nothing more is accepted
			if _, ok := q.Add(0, 0, ""); ok {
				e.Quiet = false
				e.Fail("C10", "accepted-after-close", cfg.QK.String(), fmt.Sprintf("%s: Add on a closed queue reported success", cfg))
				e.Quiet = true
			}
			closedSeen++
		}
		synctest.Wait()
		time.Sleep(time.Microsecond)
		synctest.Wait()
		e.Quiet = false
		lost, first := 0, -1
		for i, sb := range subs {
			if !sb.on {
				continue
			}
			nr := runs[i].Load()
			if nr > 1 {
				e.Fail("C01", "ran-twice", "close-race", fmt.Sprintf("%s: job %d ran %d times", cfg, i, nr))
			}
			if sb.ba {
				continue
			}
			if !sb.ok {
				if nr != 0 {
					e.Fail("C01", "rejected-ran", "close-race", fmt.Sprintf("%s: job %d was refused by the closed queue but ran", cfg, i))
					e.Fail("C10", "rejected-ran", "close-race", fmt.Sprintf("%s: job %d was refused by the closed queue but ran", cfg, i))
					e.Fail("C17", "refused-but-stored", "close-race", fmt.Sprintf("%s: job %d was refused by the closed queue (not counted as submitted) but was stored and ran", cfg, i))
				}
				continue
			}
			if nr == 0 && sb.h.Status() != "Closed" {
				lost++
				if first < 0 {
					first = i
				}
			}
		}
		for _, br := range batches {
			if br.hung {
				det := fmt.Sprintf("%s: Wait on the batch [%d,%d) submitted while the queue was being closed did not return", cfg, br.lo, br.hi)
				e.Fail("C05", "batch-wait-hang", "close-race", det)
				e.Fail("C08", "batch-wait-hang", "close-race", det)
				e.Fail("C10", "rejected-items-not-released", "close-race", det)
				lost++ // the worker is not stopped below
				continue
			}
			if br.pending != 0 {
				e.Fail("C08", "pending-after-wait", "close-race", fmt.Sprintf("%s: batch [%d,%d): NumPending=%d right after Wait returned", cfg, br.lo, br.hi, br.pending))
			}
			for i := br.lo; i < br.hi; i++ {
				if runs[i].Load() == 0 {
					continue
				}
				if ex := exitAt[i].Load(); ex == 0 || ex > br.waitRet {
					det := fmt.Sprintf("%s: batch [%d,%d) was partly accepted by a queue that was being closed; its Wait returned at %d, item %d finished at %d", cfg, br.lo, br.hi, br.waitRet, i, ex)
					e.Fail("C05", "returned-before-exit", "batch/close-race", det)
					e.Fail("C08", "wait-before-finish", "close-race", det)
					break
				}
			}
		}
		// counters: refused submissions are not counted, nothing completes that was not submitted
		if m := s.W.Metrics(); m.Completed() > m.Submitted() {
			det := fmt.Sprintf("%s: Completed=%d > Submitted=%d at rest", cfg, m.Completed(), m.Submitted())
			e.Fail("C17", "completed-above-submitted", "close-race", det)
		}
		if first < 0 && lost > 0 {
			e.Stat("batch_hangs", float64(lost))
		} else if lost > 0 {
			det := fmt.Sprintf("%s: %d jobs were accepted by a queue that was being closed and never ran nor were cancelled (first: job %d, status %s); worker %s pending=%d processing=%d", cfg, lost, first, subs[first].h.Status(), s.W.Status(), s.W.NumPending(), s.W.NumProcessing())
			e.Fail("C10", "close-drop", cfg.QK.String(), det)
			e.Fail("C01", "lost", "close-race", det)
			e.Fail("C03", "not-run-at-quiescence", "close-race", det)
		}
		e.Nontrivial()
		e.Stat("queues_closed", float64(closedSeen))
		if lost == 0 {
			s.W.Stop()
			synctest.Wait()
		}
	})
	e.Quiet = false
	if out.Kind == "hang" || out.Kind == "panic" {
		e.Fail("C03", out.Kind, "close-race/"+blockedLibFrames(out.Stacks), cfg.String()+": "+out.Msg)
	}
	return e.Result(map[string]any{"program": cfg.String()})
}

func closeRacePrograms(c *RunCtx, nq, nt int, batch ...bool) {
	for v := 0; v < c.Q(nq, nt); v++ {
		c.Program(fmt.Sprintf("close-race/%d", v), func(p *Prog) {
			r := p.Rng
			cfg := closeRaceCfg{WK: Pick(r, WPlain, WErr, WResult), QK: Pick(r, QFifo, QPrio), Conc: Pick(r, 1, 2, 4), Rounds: Pick(r, 3, 6, 10), Prods: Pick(r, 1, 2, 3), Second: r.Chance(40), Batch: r.Chance(25)}
			if len(batch) > 0 && batch[0] {
				cfg.Batch = true
			}
			p.Explore(func(pl Plan) *Result { return epCloseRace(c, cfg) },
				ExploreOpts{Base: 4, Noise: c.Q(20, 100), K: 3, Funcs: []string{"Close", "Enqueue", "queue.Add", "Queue.Add", "AddAll", "UnregisterItem", "Register", "processNextJob"}, Pairs: c.Q(20, 100), MaxCases: c.Q(150, 1500)})
		})
	}
}
