package vharness

// The error-storm family (C03): many failing and panicking jobs in flight together, with a fast,
// a slow or no consumer on Errs(). The error channel must never block a sender: at the final
// quiescent point every job has finished.

import (
	"fmt"
	"sync/atomic"
	"testing/synctest"
	"time"
)

type stormCfg struct {
	WK     WK
	QK     QK
	Conc   int
	N      int
	Reader int // 0 none, 1 eager, 2 slow (virtual pauses), 3 reads a few then stops
	Bad    int // additionally: undecodable entries on a ledger queue (errors from the event loop itself)
}

func (c stormCfg) String() string {
	return fmt.Sprintf("storm wk=%v qk=%v conc=%d n=%d reader=%d bad=%d", c.WK, c.QK, c.Conc, c.N, c.Reader, c.Bad)
}

func epStorm(c *RunCtx, cfg stormCfg) *Result {
	e := NewEnv(c.Prop)
	k := NewKit(e, cfg.N)
	for i, r := range k.Recs {
		r.Out = richOutcome(i, 1+i%2) // error or panic
		if cfg.WK == WPlain {
			r.Out = Outcome{Panic: fmt.Sprintf("panic-%d", i)}
		}
		r.Work = time.Duration(i%3) * time.Microsecond
	}
	var got atomic.Int32
	out := RunBubble(c.T, func(bid string) {
		s := NewSubject(cfg.WK, k.Work, cfg.Conc)
		var led *Ledger
		if cfg.QK.Adapter() {
			led = NewLedger(e, cfg.QK.Priority())
			for i := 0; i < cfg.Bad; i++ {
				led.Preload([]byte("not json"), 0)
			}
		}
		q := s.Bind(cfg.QK, led)
		ech := s.W.Errs()
		switch cfg.Reader {
		case 1:
			go func() {
				for range ech {
					got.Add(1)
				}
			}()
		case 2:
			go func() {
				for range ech {
					got.Add(1)
					time.Sleep(2 * time.Microsecond)
				}
			}()
		case 3:
			go func() {
				for i := 0; i < 3; i++ {
					if _, ok := <-ech; !ok {
						return
					}
					got.Add(1)
				}
			}()
		}
		for i := 0; i < cfg.N; i++ {
			k.Add(q, i)
		}
		time.Sleep(time.Millisecond)
		synctest.Wait()
		for _, r := range k.Recs {
			if r.OK && r.Exit.Load() == 0 || (r.H != nil && r.H.Status() != "Closed") {
				det := fmt.Sprintf("%s: job %d not finished at quiescence (runs=%d status=%s); worker pending=%d processing=%d; %d errors were read", cfg, r.Idx, r.Runs.Load(), statusOf(r), s.W.NumPending(), s.W.NumProcessing(), got.Load())
				e.Fail("C03", "stuck-behind-error-channel", fmt.Sprint("reader=", cfg.Reader), det+"\n"+stacksOf(bid))
				break
			}
		}
		if m := s.W.Metrics(); int(m.Completed()) != cfg.N && !e.Failed() {
			e.Fail("C17", "completed", "storm", fmt.Sprintf("%s: Completed=%d of %d", cfg, m.Completed(), cfg.N))
		}
		e.Nontrivial()
		if e.Failed() {
			return
		}
		if !k.Await(func() { s.W.Stop() }) {
			hangFail(e, "C06", "Stop(final)", bid)
		}
		synctest.Wait()
	})
	if out.Kind == "hang" {
		e.Fail("C03", "hang", "storm/"+blockedLibFrames(out.Stacks), cfg.String()+": "+out.Msg+"\n"+out.Stacks)
	} else if out.Kind == "panic" {
		e.Fail(c.Prop, "harness-panic", "", cfg.String()+": "+out.Msg+"\n"+out.Stacks)
	}
	return e.Result(k.Sample(cfg.String()))
}

func stacksOf(bid string) string {
	st := allStacks(bid)
	if len(st) > 20 {
		st = st[:20]
	}
	s := ""
	for _, g := range st {
		s += g + "\n\n"
	}
	return s
}

func stormPrograms(c *RunCtx, nq, nt int) {
	for v := 0; v < c.Q(nq, nt); v++ {
		c.Program(fmt.Sprintf("storm/%d", v), func(p *Prog) {
			r := p.Rng
			cfg := stormCfg{WK: Pick(r, WPlain, WErr, WResult), QK: Pick(r, QFifo, QPrio), Conc: Pick(r, 2, 4, 8), N: 6 + r.Intn(20), Reader: v % 4}
			if r.Chance(25) {
				cfg.WK, cfg.QK, cfg.Bad = WPlain, Pick(r, QPers, QDist), 1+r.Intn(4)
			}
			p.Explore(func(pl Plan) *Result { return epStorm(c, cfg) },
				ExploreOpts{Base: 4, Noise: c.Q(15, 80), K: c.Q(4, 8), Funcs: anchoredOr(c, []string{"sendError", "initPoolNode", "goEventLoop", "NewWorker", "NewErrWorker", "NewResultWorker", "closeChannels", "Errs"}), Pairs: c.Q(20, 120), MaxCases: c.Q(150, 2500)})
		})
	}
}
