package vharness

// C08 - batches deliver one result per executed item, then close once, without panicking.
// C07 - each handle gets its own job's outcome; panics are contained.
// (DESIGN.md §6 C07, C08)

import (
	"fmt"
	"runtime"
	"sort"
	"strings"
	"sync"
	"sync/atomic"
	"testing/synctest"
	"time"

	"github.com/goptics/varmq"
)

func init() {
	registry["C08"] = runC08
	registry["C07"] = runC07
}

type batchCfg struct {
	WK       WK
	QK       QK
	Conc     int
	Sizes    []int
	Out      [][]int // per batch per item: 0 ok 1 err 2 panic
	Gated    bool    // all items finish at the same quiescent point
	Reject   int     // 0 none, 1 queue closed before AddAll, 2 queue closed between two batches
	Purge    int     // 0 none, 1 purge while items are pending (worker saturated by gated items), 2 purges racing the AddAll calls
	Singles  int     // single jobs mixed in
	NoReader bool    // nobody reads the stream; Drain() is used instead
	Gen      bool    // the worker has a job id generator
	NoID     bool    // every third batch item is submitted without an id
	LateRead bool    // the stream is only read after Wait returned (its buffer must hold every outcome)
	Seq      bool    // a batch is submitted only after the previous one has finished (Wait returned)
}

func (c batchCfg) String() string {
	return fmt.Sprintf("batch wk=%v qk=%v conc=%d sizes=%v gated=%v reject=%d purge=%d singles=%d noReader=%v seq=%v out=%v", c.WK, c.QK, c.Conc, c.Sizes, c.Gated, c.Reject, c.Purge, c.Singles, c.NoReader, c.Seq, c.Out)
}

func drawBatch(r *Rng, big bool) batchCfg {
	c := batchCfg{WK: Pick(r, WPlain, WErr, WResult, WErr, WResult), QK: Pick(r, QFifo, QPrio), Conc: Pick(r, 1, 2, 3, 8, 16)}
	nb := 1 + r.Intn(3)
	for b := 0; b < nb; b++ {
		sz := Pick(r, 0, 1, 2, c.Conc, c.Conc+1, 7, 16)
		if big && b == 0 {
			sz = Pick(r, 64, 1025)
		}
		c.Sizes = append(c.Sizes, sz)
		outs := make([]int, sz)
		for i := range outs {
			outs[i] = Pick(r, 0, 0, 0, 1, 2)
		}
		c.Out = append(c.Out, outs)
	}
	c.Gated = r.Chance(50)
	c.Reject = Pick(r, 0, 0, 0, 1, 2)
	if c.Gated && r.Chance(30) {
		c.Purge = 1
	} else if r.Chance(20) {
		c.Purge = 2
	}
	c.Singles = r.Intn(3)
	c.NoReader = r.Chance(15)
	c.Gen = r.Chance(30)
	c.NoID = r.Chance(40)
	if r.Chance(12) && !c.Gated {
		forceLate(&c, r)
	}
	if !c.Gated && c.Purge == 0 && len(c.Sizes) >= 2 && r.Chance(35) {
		c.Seq = true
	}
	return c
}

// forceLate: a batch larger than any plausible fixed buffer, read only after Wait
func forceLate(c *batchCfg, r *Rng) {
	c.Sizes[0] = Pick(r, 257, 300, 1025, 1300, 2049)
	outs := make([]int, c.Sizes[0])
	for i := range outs {
		outs[i] = Pick(r, 0, 1, 1)
	}
	c.Out[0] = outs
	c.Gated = false
	c.LateRead, c.NoReader, c.Purge, c.Reject = true, false, 0, 0
}

type batchRun struct {
	b        *Batch
	lo, hi   int // job index range
	rejected bool
	results  []varmq.Result[int]
	errs     []error
	closed   atomic.Bool
	waitRet  atomic.Int64
}

func epBatch(c *RunCtx, cfg batchCfg) *Result {
	e := NewEnv(c.Prop)
	n := cfg.Singles
	for _, s := range cfg.Sizes {
		n += s
	}
	k := NewKit(e, n)
	ended := false
	out := RunBubble(c.T, func(bid string) {
		gate := make(chan struct{})
		var genCount atomic.Int32
		wcfg := []any{cfg.Conc}
		if cfg.Gen {
			wcfg = append(wcfg, varmq.WithJobIdGenerator(func() string { return fmt.Sprintf("gen-%d", genCount.Add(1)) }))
		}
		s := NewSubject(cfg.WK, k.Work, wcfg...)
		q := s.Bind(cfg.QK, nil)
		// drain the worker-level error channel; every error must belong to a failed job
		var wErrs []string
		var emu sync.Mutex
		ech := s.W.Errs()
		go func() {
			for er := range ech {
				emu.Lock()
				wErrs = append(wErrs, er.Error())
				emu.Unlock()
			}
		}()
		idx := 0
		var runs []*batchRun
		var rwg sync.WaitGroup
		stopPurger := make(chan struct{})
		purgerDone := make(chan struct{})
		if cfg.Purge == 2 {
			go func() {
				defer close(purgerDone)
				for {
					select {
					case <-stopPurger:
						return
					default:
					}
					q.Base.Purge()
					runtime.Gosched()
				}
			}()
		} else {
			close(purgerDone)
		}
		for bi, sz := range cfg.Sizes {
			br := &batchRun{lo: idx, hi: idx + sz}
			var items []varmq.Item[int]
			for i := 0; i < sz; i++ {
				r := k.Recs[idx]
				r.ID = fmt.Sprintf("b%d-%d", bi, i)
				if cfg.NoID && i%3 == 1 {
					r.ID = "" // the id then comes from the worker's generator (or stays empty)
				}
				r.InBatch = true
				r.Out = richOutcome(idx, cfg.Out[bi][i])
				if cfg.WK == WPlain && cfg.Out[bi][i] == 1 {
					r.Out = Outcome{}
				}
				if cfg.Gated {
					r.Gate = gate
				}
				if cfg.Seq && bi > 0 {
					// takes (virtual) time: still queued or executing when AddAll returns
					r.Work = 2 * time.Microsecond
				}
				r.Prio = i % 3
				items = append(items, varmq.Item[int]{ID: r.ID, Data: idx, Priority: r.Prio})
				r.Submitted = true
				idx++
			}
			if (cfg.Reject == 1 && bi == 0) || (cfg.Reject == 2 && bi == 1) {
				q.Base.Close()
				e.Ev("queue.close")
			}
			closedQ := (cfg.Reject == 1) || (cfg.Reject == 2 && bi >= 1)
			br.rejected = closedQ
			if cfg.Seq && bi > 0 {
				prev := runs[bi-1]
				if !k.Await(prev.b.Wait) {
					hangFail(e, "C08", fmt.Sprintf("batch%d.Wait(seq)", bi-1), bid)
					return
				}
			}
			e.Ev(fmt.Sprintf("addall%d", bi), sz)
			br.b = q.AddAll(items)
			if cfg.Seq && bi > 0 {
				// the items of the finished batches stay Closed whatever the library does with the next batch
				for _, pb := range runs {
					for i := pb.lo; i < pb.hi; i++ {
						if st := k.Recs[i].RefStatus(); st != "" && st != "Closed" {
							e.Fail("C16", "backwards", "Closed>"+st+"/batch-item", fmt.Sprintf("%s: item %d of batch %d read Closed when its batch's Wait returned; after the next AddAll it reads %s", cfg, i, bi-1, st))
						}
					}
				}
			}
			for i := br.lo; i < br.hi; i++ {
				k.Recs[i].OK = !closedQ
			}
			runs = append(runs, br)
			// readers
			if cfg.LateRead {
				// nothing reads until Wait has returned
			} else if cfg.NoReader && br.b.Drain != nil {
				br.b.Drain()
			} else {
				if br.b.Results != nil {
					rwg.Add(1)
					go func() {
						defer rwg.Done()
						for r := range br.b.Results {
							br.results = append(br.results, r)
						}
						br.closed.Store(true)
					}()
				}
				if br.b.Errs != nil {
					rwg.Add(1)
					go func() {
						defer rwg.Done()
						for er := range br.b.Errs {
							br.errs = append(br.errs, er)
						}
						br.closed.Store(true)
					}()
				}
			}
			rwg.Add(1)
			go func() {
				defer rwg.Done()
				br.b.Wait()
				br.waitRet.Store(e.Ev(fmt.Sprintf("batch%d.wait.ret", bi)))
				// once Wait has returned every item of the batch reads Closed
				for i := br.lo; i < br.hi; i++ {
					if st := k.Recs[i].RefStatus(); st != "" && st != "Closed" {
						e.Fail("C16", "not-closed-after-wait", "batch-item/"+st, fmt.Sprintf("%s: batch %d: Wait returned, item %d reads %s", cfg, bi, i, st))
						break
					}
				}
				if cfg.LateRead {
					if br.b.Results != nil {
						for r := range br.b.Results {
							br.results = append(br.results, r)
						}
					}
					if br.b.Errs != nil {
						for er := range br.b.Errs {
							br.errs = append(br.errs, er)
						}
					}
					br.closed.Store(true)
				}
				if p := br.b.NumPending(); p != 0 {
					e.Fail("C08", "pending-after-wait", "", fmt.Sprintf("%s: batch %d NumPending=%d right after Wait returned", cfg, bi, p))
				}
			}()
		}
		close(stopPurger)
		<-purgerDone
		// single jobs mixed in (only when the queue is still open)
		var singles []int
		for i := 0; i < cfg.Singles && cfg.Reject == 0; i++ {
			r := k.Recs[idx]
			r.ID = fmt.Sprintf("s%d", i)
			r.Out = richOutcome(idx, i%3)
			if cfg.WK == WPlain && i%3 == 1 {
				r.Out = Outcome{}
			}
			if cfg.Gated {
				r.Gate = gate
			}
			k.Add(q, idx)
			singles = append(singles, idx)
			idx++
		}
		synctest.Wait()
		// quiescent point with gated items: NumPending of each batch == items not finished
		if cfg.Gated {
			// every accepted job is gated: min(accepted, limit) of them must be executing together now
			if cfg.Purge != 2 {
				acc := 0
				for _, r := range k.Recs[:idx] {
					if r.Submitted && r.OK {
						acc++
					}
				}
				if got, want := k.InFlight(), min(acc, cfg.Conc); got != want {
					det := fmt.Sprintf("%s: %d jobs executing at the gated quiescent point, %d accepted, limit %d: expected %d (pending=%d processing=%d)", cfg, got, acc, cfg.Conc, want, s.W.NumPending(), s.W.NumProcessing())
					if got < want {
						e.Fail("C03", "no-progress-at-quiescence", "batch", det)
						// nothing can happen any more without a further call: the accepted items that are not
						// executing now are never invoked in the execution in which the gates stay shut
						e.Fail("C01", "not-invoked-at-quiescence", "batch", det)
					} else {
						e.Fail("C02", "more-in-flight-than-model", "batch", det)
					}
				}
				e.ntFor("C03")
			}
			for bi, br := range runs {
				want := 0
				for i := br.lo; i < br.hi; i++ {
					if k.Recs[i].OK && k.Recs[i].Exit.Load() == 0 {
						want++
					}
				}
				// racing purges may have cancelled any subset: only the upper bound is known then
				if got := br.b.NumPending(); (cfg.Purge != 2 && got != want) || got > want {
					e.Fail("C08", "pending-at-q", "", fmt.Sprintf("%s: batch %d NumPending=%d, items not finished %d", cfg, bi, got, want))
				}
			}
			if cfg.Purge == 1 {
				q.Base.Purge()
				e.Ev("purge")
				synctest.Wait()
			}
			close(gate) // every in-flight item finishes at the same instant
			e.Nontrivial()
		}
		time.Sleep(time.Millisecond)
		synctest.Wait()
		if !k.Await(rwg.Wait) {
			var open []string
			for bi, br := range runs {
				if br.waitRet.Load() == 0 {
					open = append(open, fmt.Sprintf("batch%d.Wait", bi))
				}
				if !cfg.NoReader && (br.b.Results != nil || br.b.Errs != nil) && !br.closed.Load() {
					open = append(open, fmt.Sprintf("batch%d.stream(size=%d,rejected=%v)", bi, br.hi-br.lo, br.rejected))
					e.Fail("C08", "stream-never-closed", fmt.Sprintf("kind=%v,empty=%v,rejected=%v,purged=%v", cfg.WK, br.hi == br.lo, br.rejected, cfg.Purge == 1),
						fmt.Sprintf("%s: the stream of batch %d (size %d) was not closed although nothing can run any more", cfg, bi, br.hi-br.lo))
				}
			}
			hangFail(e, "C05", "batch:"+strings.Join(open, ","), bid)
			e.Fail("C08", "batch-wait-hang", "", fmt.Sprintf("%s: open %v", cfg, open))
			return
		}
		// per batch: one result per executed item, tagged with its id
		seenGen := map[string]bool{}
		for bi, br := range runs {
			var executed, failed []int
			for i := br.lo; i < br.hi; i++ {
				r := k.Recs[i]
				runs := int(r.Runs.Load())
				if runs > 1 {
					e.Fail("C01", "ran-twice", "batch", fmt.Sprintf("item %d ran %d times", i, runs))
				}
				if runs >= 1 {
					executed = append(executed, i)
					if r.Out.Err != nil || r.Out.Panic != nil {
						failed = append(failed, i)
					}
					id, _ := r.SeenID.Load().(string)
					switch {
					case r.ID != "":
						if id != "g:"+r.ID {
							e.Fail("C07", "batch-id", "", fmt.Sprintf("%s: item %d ran with id %q, want %q", cfg, i, id, "g:"+r.ID))
							e.Fail("C08", "result-tag", "explicit", fmt.Sprintf("%s: item %d (submitted with id %q) ran as %q", cfg, i, r.ID, id))
						}
					case cfg.Gen:
						if !strings.HasPrefix(id, "g:gen-") || seenGen[id] {
							e.Fail("C07", "batch-id", "generator", fmt.Sprintf("%s: item %d submitted without an id ran as %q, want a fresh generator value with the g: prefix", cfg, i, id))
							e.Fail("C08", "result-tag", "generator", fmt.Sprintf("%s: item %d submitted without an id ran as %q (duplicate or not generated)", cfg, i, id))
						}
						seenGen[id] = true
					default:
						if id != "g:" {
							e.Fail("C07", "batch-id", "empty", fmt.Sprintf("%s: item %d submitted without an id ran as %q, want %q", cfg, i, id, "g:"))
							e.Fail("C08", "result-tag", "empty", fmt.Sprintf("%s: item %d submitted without an id ran as %q", cfg, i, id))
						}
					}
				}
				if br.rejected && runs != 0 {
					e.Fail("C10", "rejected-ran", "batch", fmt.Sprintf("%s: item %d of a batch submitted to a closed queue ran", cfg, i))
				}
				if !br.rejected && cfg.Purge == 0 && runs != 1 {
					e.Fail("C01", "not-exactly-once", "batch", fmt.Sprintf("%s: item %d ran %d times", cfg, i, runs))
				}
			}
			if cfg.NoReader {
				continue
			}
			if br.b.Results != nil {
				got := map[string]int{}
				for _, r := range br.results {
					got[r.JobId]++
					// match outcome
					var rec *JobRec
					for i := br.lo; i < br.hi; i++ {
						if sid, _ := k.Recs[i].SeenID.Load().(string); sid == r.JobId && (k.Recs[i].ID != "" || cfg.Gen) {
							rec = k.Recs[i]
						}
					}
					if rec == nil && r.JobId == "g:" && cfg.NoID && !cfg.Gen {
						continue // items without id and without generator are indistinguishable by tag
					}
					if rec == nil {
						e.Fail("C08", "foreign-result", "", fmt.Sprintf("%s: batch %d delivered a result tagged %q which is none of its items", cfg, bi, r.JobId))
						continue
					}
					switch {
					case rec.Out.Panic != nil:
						if r.Err == nil || !strings.Contains(r.Err.Error(), fmt.Sprint(rec.Out.Panic)) {
							e.Fail("C07", "wrong-outcome", "batch-panic", fmt.Sprintf("%s: %s got (%d,%v), function panicked with %v", cfg, r.JobId, r.Data, r.Err, rec.Out.Panic))
						}
					case rec.Out.Err != nil:
						if r.Err == nil || r.Err.Error() != rec.Out.Err.Error() {
							e.Fail("C07", "wrong-outcome", "batch-error", fmt.Sprintf("%s: %s got (%d,%v), function returned %v", cfg, r.JobId, r.Data, r.Err, rec.Out.Err))
						}
					default:
						if r.Err != nil || r.Data != rec.Out.Val {
							e.Fail("C07", "wrong-outcome", "batch-value", fmt.Sprintf("%s: %s got (%d,%v), function returned %d", cfg, r.JobId, r.Data, r.Err, rec.Out.Val))
						}
					}
				}
				anon := 0
				for _, i := range executed {
					if k.Recs[i].ID == "" && !cfg.Gen {
						anon++
					}
				}
				if anon > 0 || got["g:"] > 0 {
					if got["g:"] != anon {
						e.Fail("C08", "result-count", "anonymous", fmt.Sprintf("%s: batch %d delivered %d results tagged g:, %d items without id executed", cfg, bi, got["g:"], anon))
						if got["g:"] < anon {
							e.Fail("C07", "outcome-not-delivered", "batch", fmt.Sprintf("%s: batch %d: %d items without id executed, only %d outcomes appeared on the stream read to its end", cfg, bi, anon, got["g:"]))
						}
					}
					delete(got, "g:")
				}
				for _, i := range executed {
					id, _ := k.Recs[i].SeenID.Load().(string)
					if k.Recs[i].ID == "" && !cfg.Gen {
						continue
					}
					if got[id] != 1 {
						e.Fail("C08", "result-count", fmt.Sprint(got[id]), fmt.Sprintf("%s: batch %d delivered %d results for executed item %s (all: %v)", cfg, bi, got[id], id, got))
						if got[id] == 0 {
							e.Fail("C07", "outcome-not-delivered", "batch", fmt.Sprintf("%s: batch %d: item %s executed and its outcome never appeared on the batch's stream, although the stream was read to its end (%d results delivered in all)", cfg, bi, id, len(br.results)+len(br.errs)))
						}
					}
					delete(got, id)
				}
				for id, nn := range got {
					e.Fail("C08", "result-for-unexecuted", "", fmt.Sprintf("%s: batch %d delivered %d results for %s which did not execute", cfg, bi, nn, id))
				}
			}
			if br.b.Errs != nil {
				var want, gotE []string
				for _, i := range failed {
					r := k.Recs[i]
					if r.Out.Panic != nil {
						want = append(want, fmt.Sprintf("panic recovered inside err-worker: %v", r.Out.Panic))
					} else {
						want = append(want, r.Out.Err.Error())
					}
				}
				for _, er := range br.errs {
					if er == nil {
						gotE = append(gotE, "<nil>")
					} else {
						gotE = append(gotE, er.Error())
					}
				}
				sort.Strings(want)
				sort.Strings(gotE)
				if fmt.Sprint(want) != fmt.Sprint(gotE) {
					e.Fail("C08", "error-stream", "", fmt.Sprintf("%s: batch %d Errs() delivered %v, failed items produced %v", cfg, bi, gotE, want))
				}
			}
		}
		// singles: own outcome, identical on every call
		for _, i := range singles {
			r := k.Recs[i]
			if r.H == nil {
				continue
			}
			for rep := 0; rep < 3; rep++ {
				checkOutcome(e, cfg.WK, cfg.String(), r)
			}
		}
		// metrics at rest
		exits, fails := 0, 0
		for _, r := range k.Recs[:idx] {
			if r.Exit.Load() != 0 {
				exits++
				if r.Out.Err != nil || r.Out.Panic != nil {
					fails++
				}
			}
		}
		m := s.W.Metrics()
		if int(m.Completed()) != exits || int(m.Failed()) != fails || int(m.Successful()) != exits-fails {
			e.Fail("C07", "metrics", "", fmt.Sprintf("%s: Completed=%d Successful=%d Failed=%d; finished invocations %d of which %d failed", cfg, m.Completed(), m.Successful(), m.Failed(), exits, fails))
			e.Fail("C17", "completed", "batch", fmt.Sprintf("%s: Completed=%d Successful=%d Failed=%d; finished invocations %d of which %d failed", cfg, m.Completed(), m.Successful(), m.Failed(), exits, fails))
		}
		acc := 0
		for _, r := range k.Recs[:idx] {
			if r.Submitted && r.OK {
				acc++
			}
		}
		if int(m.Submitted()) != acc {
			e.Fail("C17", "submitted", fmt.Sprintf("batch/%v/%v", cfg.WK, cfg.QK), fmt.Sprintf("%s: Submitted=%d, accepted submissions %d (rejected ones must not count)", cfg, m.Submitted(), acc))
		}
		e.ntFor("C17")
		emu.Lock()
		for _, we := range wErrs {
			found := false
			for _, r := range k.Recs[:idx] {
				if (r.Out.Err != nil && strings.Contains(we, r.Out.Err.Error())) || (r.Out.Panic != nil && strings.Contains(we, fmt.Sprint(r.Out.Panic))) {
					found = true
				}
			}
			// the dispatcher reports its own conditions on the same channel (a dequeue that lost to a purge)
			if !found && !strings.Contains(we, "failed to dequeue job") && !strings.Contains(we, "failed to get next queue") {
				e.Fail("C07", "invented-error", "", fmt.Sprintf("%s: Errs() delivered %q which no job produced", cfg, we))
			}
		}
		emu.Unlock()
		if fails > 0 {
			e.ntFor("C07")
		}
		if len(runs) > 0 && !cfg.Gated {
			e.ntFor("C08")
		}
		s.W.Stop()
		synctest.Wait()
		ended = true
	})
	_ = ended
	switch out.Kind {
	case "hang":
		e.Fail("C08", "hang", blockedLibFrames(out.Stacks), cfg.String()+": "+out.Msg+"\n"+out.Stacks)
	case "panic":
		e.Fail(c.Prop, "harness-panic", "", cfg.String()+": "+out.Msg+"\n"+out.Stacks)
	}
	return e.Result(k.Sample(cfg.String()))
}

// checkOutcome compares what the handle yields with what the function produced for that job.
func checkOutcome(e *Env, wk WK, desc string, r *JobRec) {
	v, err, ok := ResultOf(r.H)
	if !ok || r.Runs.Load() != 1 {
		return
	}
	switch {
	case r.Out.Panic != nil:
		if err == nil || !strings.Contains(err.Error(), fmt.Sprint(r.Out.Panic)) {
			e.Fail("C07", "wrong-outcome", "panic", fmt.Sprintf("%s: job %d handle yields (%d,%v), function panicked with %v", desc, r.Idx, v, err, r.Out.Panic))
		}
	case r.Out.Err != nil:
		if err == nil || err.Error() != r.Out.Err.Error() {
			e.Fail("C07", "wrong-outcome", "error", fmt.Sprintf("%s: job %d handle yields (%d,%v), function returned %v", desc, r.Idx, v, err, r.Out.Err))
		}
	default:
		if err != nil || (wk == WResult && v != r.Out.Val) {
			e.Fail("C07", "wrong-outcome", "value", fmt.Sprintf("%s: job %d handle yields (%d,%v), function returned %d", desc, r.Idx, v, err, r.Out.Val))
		}
	}
}

// --- C07: single jobs with mixed outcomes in flight together, helpers with nil functions -------

type outCfg struct {
	WK     WK
	QK     QK
	Conc   int
	N      int
	Out    []int
	Work   []time.Duration
	IDs    []string
	Gen    bool // worker-level id generator
	Paced  bool
	Reads  int
	Helper int // 0 none, 1 Func, 2 ErrFunc, 3 ResultFunc
	// PauseMid: in the paced variant every second job is gated, the worker is paused while it runs and
	// the job then finishes (fails) under the paused worker: its error must still be offered on Errs()
	PauseMid bool
	EmptyOpt bool // submissions without an id pass WithJobId("") explicitly
}

func (c outCfg) String() string {
	return fmt.Sprintf("outcome wk=%v qk=%v conc=%d n=%d out=%v gen=%v paced=%v reads=%d helper=%d", c.WK, c.QK, c.Conc, c.N, c.Out, c.Gen, c.Paced, c.Reads, c.Helper)
}

func drawOut(r *Rng) outCfg {
	c := outCfg{WK: Pick(r, WPlain, WErr, WResult, WResult), QK: Pick(r, QFifo, QPrio), Conc: Pick(r, 1, 2, 4, 16), N: 1 + r.Intn(12), Gen: r.Bool(), Paced: r.Chance(30), Reads: 1 + r.Intn(3)}
	for i := 0; i < c.N; i++ {
		c.Out = append(c.Out, Pick(r, 0, 0, 1, 2))
		c.Work = append(c.Work, Pick(r, 0, time.Microsecond, 3*time.Microsecond))
		c.IDs = append(c.IDs, Pick(r, "", "", fmt.Sprintf("id-%d", i), genString(r)))
	}
	if r.Chance(15) {
		c.Helper = 1 + r.Intn(3)
	}
	c.PauseMid = c.Paced && r.Bool()
	c.EmptyOpt = r.Bool()
	return c
}

func epOutcome(c *RunCtx, cfg outCfg) *Result {
	e := NewEnv(c.Prop)
	if cfg.Helper != 0 {
		return epHelper(c, e, cfg)
	}
	k := NewKit(e, cfg.N)
	out := RunBubble(c.T, func(bid string) {
		var wcfg []any
		wcfg = append(wcfg, cfg.Conc)
		var genCount atomic.Int32
		if cfg.Gen {
			wcfg = append(wcfg, varmq.WithJobIdGenerator(func() string { return fmt.Sprintf("gen-%d", genCount.Add(1)) }))
		}
		s := NewSubject(cfg.WK, k.Work, wcfg...)
		q := s.Bind(cfg.QK, nil)
		ech := s.W.Errs()
		var wErrs []string
		var emu sync.Mutex
		go func() {
			for er := range ech {
				emu.Lock()
				wErrs = append(wErrs, er.Error())
				emu.Unlock()
			}
		}()
		fails := 0
		var cwg sync.WaitGroup
		for i := 0; i < cfg.N; i++ {
			r := k.Recs[i]
			r.ID = cfg.IDs[i]
			if len(r.ID) > 200 {
				r.ID = r.ID[:200]
			}
			r.Work = cfg.Work[i]
			r.Out = richOutcome(i, cfg.Out[i])
			if cfg.WK == WPlain && cfg.Out[i] == 1 {
				r.Out = Outcome{}
			}
			if r.Out.Err != nil || r.Out.Panic != nil {
				fails++
			}
			var gate chan struct{}
			if cfg.PauseMid && i%2 == 0 {
				gate = make(chan struct{})
				r.Gate = gate
			}
			if r.ID == "" && cfg.EmptyOpt {
				// an explicit empty id option is a no-op: the generator (or the empty default) still applies
				r.Submitted = true
				r.AddCall = e.Ev(fmt.Sprintf("add%d.call", i))
				h, ok := q.add(i, r.Prio, varmq.WithJobId(""))
				r.OK = ok
				if ok && h != nil {
					r.SetHandle(h)
				}
				r.AddRet = e.Ev(fmt.Sprintf("add%d.ret", i), ok)
			} else {
				k.Add(q, i)
			}
			if r.H == nil {
				e.Fail("C07", "rejected", "", "add rejected on an open queue")
				continue
			}
			if gate != nil {
				synctest.Wait() // the job is executing
				switch i % 3 {
				case 0:
					s.W.Pause()
					close(gate)
				case 1:
					done := make(chan struct{})
					go func() { s.W.PauseAndWait(); close(done) }()
					synctest.Wait()
					close(gate)
					<-done
				default:
					s.W.Pause()
					close(gate)
				}
				time.Sleep(10 * time.Microsecond)
				synctest.Wait()
				s.W.Resume()
			}
			// concurrent readers of the same handle
			for x := 0; x < cfg.Reads; x++ {
				cwg.Add(1)
				go func() {
					defer cwg.Done()
					r.H.Wait()
					checkOutcome(e, cfg.WK, cfg.String(), r)
					checkOutcome(e, cfg.WK, cfg.String(), r)
				}()
			}
			if cfg.Paced {
				time.Sleep(10 * time.Microsecond)
				synctest.Wait()
				emu.Lock()
				ne := len(wErrs)
				emu.Unlock()
				if ne != fails {
					e.Fail("C07", "failure-not-offered", "", fmt.Sprintf("%s: after job %d: %d errors received on Errs(), %d jobs failed so far", cfg, i, ne, fails))
				}
			}
		}
		if !k.Await(cwg.Wait) {
			hangFail(e, "C05", "handle", bid)
			return
		}
		time.Sleep(50 * time.Microsecond)
		synctest.Wait()
		gens := 0
		for _, r := range k.Recs {
			if r.Runs.Load() != 1 {
				e.Fail("C07", "pool-disabled", "", fmt.Sprintf("%s: job %d ran %d times (jobs after a panic must still run)", cfg, r.Idx, r.Runs.Load()))
				continue
			}
			id, _ := r.SeenID.Load().(string)
			switch {
			case r.ID != "":
				if id != r.ID {
					e.Fail("C07", "job-id", "explicit", fmt.Sprintf("%s: job %d ran with id %q, WithJobId %q", cfg, r.Idx, id, r.ID))
				}
				if cfg.Gen {
					gens++
				}
			case cfg.Gen:
				gens++
				if !strings.HasPrefix(id, "gen-") {
					e.Fail("C07", "job-id", "generator", fmt.Sprintf("%s: job %d ran with id %q, expected a generator value", cfg, r.Idx, id))
				}
			default:
				if id != "" {
					e.Fail("C07", "job-id", "default", fmt.Sprintf("%s: job %d ran with id %q, expected empty", cfg, r.Idx, id))
				}
			}
			if r.H != nil && r.H.ID() != id {
				e.Fail("C07", "job-id", "handle", fmt.Sprintf("%s: handle id %q, function saw %q", cfg, r.H.ID(), id))
			}
		}
		m := s.W.Metrics()
		if int(m.Completed()) != cfg.N || int(m.Failed()) != fails || int(m.Successful()) != cfg.N-fails {
			e.Fail("C07", "metrics", "", fmt.Sprintf("%s: Completed=%d Successful=%d Failed=%d; %d jobs of which %d failed", cfg, m.Completed(), m.Successful(), m.Failed(), cfg.N, fails))
		}
		emu.Lock()
		for _, we := range wErrs {
			found := false
			for _, r := range k.Recs {
				if (r.Out.Err != nil && strings.Contains(we, r.Out.Err.Error())) || (r.Out.Panic != nil && strings.Contains(we, fmt.Sprint(r.Out.Panic))) {
					found = true
				}
			}
			if !found {
				e.Fail("C07", "invented-error", "", fmt.Sprintf("%s: Errs() delivered %q which no job produced", cfg, we))
			}
		}
		emu.Unlock()
		if fails > 0 && cfg.N > 1 {
			e.Nontrivial()
		}
		s.W.Stop()
		synctest.Wait()
	})
	if out.Kind == "hang" || out.Kind == "panic" {
		e.Fail("C07", out.Kind, blockedLibFrames(out.Stacks), cfg.String()+": "+out.Msg+"\n"+out.Stacks)
	}
	return e.Result(k.Sample(cfg.String()))
}

// epHelper: Func / ErrFunc / ResultFunc with real and nil functions.
func epHelper(c *RunCtx, e *Env, cfg outCfg) *Result {
	out := RunBubble(c.T, func(bid string) {
		var calls atomic.Int32
		n := cfg.N
		switch cfg.Helper {
		case 1:
			w := varmq.NewWorker(varmq.Func(), cfg.Conc)
			q := w.BindQueue()
			var hs []varmq.EnqueuedJob
			nils := 0
			for i := 0; i < n; i++ {
				var f func()
				if cfg.Out[i] != 2 {
					f = func() { calls.Add(1) }
				} else {
					nils++
				}
				h, _ := q.Add(f)
				hs = append(hs, h)
			}
			for _, h := range hs {
				h.Wait()
			}
			synctest.Wait()
			m := w.Metrics()
			if int(calls.Load()) != n-nils || int(m.Failed()) != nils || int(m.Successful()) != n-nils {
				e.Fail("C07", "helper-func", "", fmt.Sprintf("%s: %d functions called, Failed=%d Successful=%d; %d real and %d nil functions", cfg, calls.Load(), m.Failed(), m.Successful(), n-nils, nils))
			}
			w.Stop()
		case 2:
			w := varmq.NewErrWorker(varmq.ErrFunc(), cfg.Conc)
			q := w.BindQueue()
			for i := 0; i < n; i++ {
				var f func() error
				want := ""
				switch cfg.Out[i] {
				case 0:
					f = func() error { return nil }
				case 1:
					want = fmt.Sprintf("err-%d", i)
					f = func() error { return fmt.Errorf("%s", want) }
				default:
					want = "provided function is nil"
				}
				h, _ := q.Add(f)
				err := h.Err()
				if (err == nil) != (want == "") || (err != nil && err.Error() != want) {
					e.Fail("C07", "helper-errfunc", "", fmt.Sprintf("%s: job %d Err()=%v, want %q", cfg, i, err, want))
				}
			}
			w.Stop()
		case 3:
			w := varmq.NewResultWorker(varmq.ResultFunc[int](), cfg.Conc)
			q := w.BindQueue()
			for i := 0; i < n; i++ {
				var f func() (int, error)
				want, wantErr := 0, ""
				switch cfg.Out[i] {
				case 0:
					want = 100 + i
					f = func() (int, error) { return want, nil }
				case 1:
					wantErr = fmt.Sprintf("err-%d", i)
					f = func() (int, error) { return 0, fmt.Errorf("%s", wantErr) }
				default:
					wantErr = "provided function is nil"
				}
				h, _ := q.Add(f)
				v, err := h.Result()
				if v != want || (err == nil) != (wantErr == "") || (err != nil && err.Error() != wantErr) {
					e.Fail("C07", "helper-resultfunc", "", fmt.Sprintf("%s: job %d Result()=(%d,%v), want (%d,%q)", cfg, i, v, err, want, wantErr))
				}
			}
			w.Stop()
		}
		synctest.Wait()
		e.Nontrivial()
	})
	if out.Kind == "hang" || out.Kind == "panic" {
		e.Fail("C07", out.Kind, "helper/"+blockedLibFrames(out.Stacks), cfg.String()+": "+out.Msg+"\n"+out.Stacks)
	}
	r := e.Result(map[string]any{"program": cfg.String()})
	return r
}

var batchFuncs = []string{"groupJob", "GroupJob", "WgCounter", "Response", "AddAll", "Close", "markClosed", "initPoolNode", "processNextJob", "sendError", "sendResult", "NewErrWorker", "NewResultWorker", "NewWorker", "WithSafe", "Purge"}

func runC08(c *RunCtx) {
	purgeBurstPrograms(c, 16, 64)
	// batches submitted while their queue is being closed (partly accepted)
	closeRacePrograms(c, 24, 120, true)
	for v := 0; v < c.Q(96, 600); v++ {
		c.Program(fmt.Sprintf("batch/%d", v), func(p *Prog) {
			cfg := drawBatch(p.Rng, c.Thorough() && v%20 == 0)
			if v%12 == 7 {
				// every item of a large batch fails and nobody reads before Wait returned: the stream has to
				// hold one outcome per item whatever the size
				cfg.WK = Pick(p.Rng, WErr, WResult)
				forceLate(&cfg, p.Rng)
				for i := range cfg.Out[0] {
					cfg.Out[0][i] = 1
				}
			}
			p.Explore(func(pl Plan) *Result { return epBatch(c, cfg) },
				ExploreOpts{Base: 4, Noise: c.Q(15, 80), K: c.Q(2, 4), Funcs: anchoredOr(c, batchFuncs), Pairs: c.Q(15, 100), MaxCases: c.Q(120, 2500)})
		})
	}
}

func runC07(c *RunCtx) {
	// the submitted data reaches the function on adapter-backed queues too (reference payloads: struct, map, slice, pointer)
	for _, typ := range []int{3, 4, 5, 7, 8, 9} {
		for variant := 0; variant < 4; variant++ {
			for v := 0; v < c.Q(4, 40); v++ {
				c.Program(fmt.Sprintf("fidelity/t%d/v%d/%d", typ, variant, v), func(p *Prog) {
					seed := p.Rng.Next()
					p.Explore(func(pl Plan) *Result { return epFidelity(c, typ, variant, seed) }, ExploreOpts{Base: 1})
				})
			}
		}
	}
	for v := 0; v < c.Q(96, 600); v++ {
		c.Program(fmt.Sprintf("outcome/%d", v), func(p *Prog) {
			cfg := drawOut(p.Rng)
			p.Explore(func(pl Plan) *Result { return epOutcome(c, cfg) },
				ExploreOpts{Base: 3, Noise: c.Q(15, 80), K: c.Q(2, 4), Funcs: anchoredOr(c, batchFuncs), Pairs: c.Q(10, 80), MaxCases: c.Q(80, 2000)})
		})
	}
	for v := 0; v < c.Q(32, 200); v++ {
		c.Program(fmt.Sprintf("batch/%d", v), func(p *Prog) {
			cfg := drawBatch(p.Rng, false)
			if v%8 == 7 {
				forceLate(&cfg, p.Rng)
			}
			p.Explore(func(pl Plan) *Result { return epBatch(c, cfg) },
				ExploreOpts{Base: 3, K: c.Q(2, 3), Funcs: anchoredOr(c, batchFuncs), Pairs: c.Q(10, 60), MaxCases: c.Q(80, 1500)})
		})
	}
}
