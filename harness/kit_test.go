package vharness

// Kit: shared instrumentation for families that run jobs through an in-memory queue and
// observe them at the client boundary (job records, the recording worker function, control-call
// records, common oracles).

import (
	"fmt"
	"sync"
	"sync/atomic"
	"time"

	"github.com/goptics/varmq"
)

type JobRec struct {
	Idx  int
	ID   string
	Prio int
	H    varmq.EnqueuedJob
	hSet atomic.Bool

	AddCall, AddRet int64
	OK              bool
	Submitted       bool // Add/AddAll call was issued
	InBatch         bool

	Enter, Exit atomic.Int64
	Runs        atomic.Int32
	SeenID      atomic.Value // string
	Ref         atomic.Value // the job value the worker function received (batch items have no handle of their own)

	CloseCalled         bool
	CloseCall, CloseRet int64
	CloseErr            error

	// behaviour inside the worker function
	Work time.Duration // virtual sleep
	Gate chan struct{} // if non-nil the function blocks until the gate is closed / receives
	Out  Outcome
}

// jobRef wraps the job value so that atomic.Value always stores one concrete type
type jobRef struct{ J varmq.Job[int] }

// RefStatus reads the status through the job value seen by the worker function ("" if it never ran)
func (r *JobRec) RefStatus() string {
	jr, ok := r.Ref.Load().(jobRef)
	if !ok {
		return ""
	}
	if sp, ok := jr.J.(interface{ Status() string }); ok {
		return sp.Status()
	}
	return ""
}

func (r *JobRec) SetHandle(h varmq.EnqueuedJob) {
	r.H = h
	r.hSet.Store(true)
}

// Cancelled: a Close call on the handle returned nil and the job did not run.
func (r *JobRec) Cancelled() bool {
	return r.CloseCalled && r.CloseErr == nil && r.Runs.Load() == 0
}

type CtlRec struct {
	Kind      string
	Arg       int
	Call, Ret int64
	Err       error
}

type Kit struct {
	E        *Env
	Recs     []*JobRec
	inflight atomic.Int32
	Peak     atomic.Int32
	mu       sync.Mutex
	Ctl      []*CtlRec
	// InFn, if set, is called inside the worker function between enter and exit
	InFn func(r *JobRec)
}

func NewKit(e *Env, n int) *Kit {
	k := &Kit{E: e}
	for i := 0; i < n; i++ {
		k.Recs = append(k.Recs, &JobRec{Idx: i})
	}
	return k
}

func (k *Kit) InFlight() int { return int(k.inflight.Load()) }

// Work is the recording worker function.
func (k *Kit) Work(j varmq.Job[int]) Outcome {
	d := j.Data()
	if d < 0 || d >= len(k.Recs) {
		k.E.Fail("C01", "foreign-data", "", fmt.Sprintf("worker function received data %d that was never submitted", d))
		return Outcome{}
	}
	r := k.Recs[d]
	if n := r.Runs.Add(1); n > 1 {
		k.E.Fail("C01", "ran-twice", "", fmt.Sprintf("job %d invoked %d times", d, n))
	}
	r.SeenID.Store(j.ID())
	r.Ref.Store(jobRef{j})
	if sp, ok := j.(interface{ Status() string }); ok && r.InBatch {
		if st := sp.Status(); st != "Processing" {
			k.E.Fail("C16", "not-processing-during-run", "batch-item/"+st, fmt.Sprintf("batch item %d reads %s at the start of its function", d, st))
		}
	}
	r.Enter.Store(k.E.Ev(fmt.Sprintf("enter%d", d)))
	c := k.inflight.Add(1)
	for {
		p := k.Peak.Load()
		if c <= p || k.Peak.CompareAndSwap(p, c) {
			break
		}
	}
	if k.InFn != nil {
		k.InFn(r)
	}
	if r.Gate != nil {
		<-r.Gate
	}
	if r.Work > 0 {
		time.Sleep(r.Work)
	}
	k.inflight.Add(-1)
	r.Exit.Store(k.E.Ev(fmt.Sprintf("exit%d", d)))
	return r.Out
}

// Add submits job i through q and records call/return stamps.
func (k *Kit) Add(q *BoundQ, i int) {
	r := k.Recs[i]
	r.Submitted = true
	r.AddCall = k.E.Ev(fmt.Sprintf("add%d.call", i))
	h, ok := q.Add(i, r.Prio, r.ID)
	r.OK = ok
	if ok && h != nil {
		r.SetHandle(h)
	}
	r.AddRet = k.E.Ev(fmt.Sprintf("add%d.ret", i), ok)
}

// Close cancels job i through its handle and records the outcome.
func (k *Kit) Close(i int) {
	r := k.Recs[i]
	if r.H == nil {
		return
	}
	r.CloseCall = k.E.Ev(fmt.Sprintf("close%d.call", i))
	err := r.H.Close()
	r.CloseErr = err
	r.CloseCalled = true
	r.CloseRet = k.E.Ev(fmt.Sprintf("close%d.ret", i), err)
}

// Call runs one control call and records it (the record is visible as open while the call runs).
func (k *Kit) Call(kind string, arg int, f func() error) *CtlRec {
	c := &CtlRec{Kind: kind, Arg: arg}
	c.Call = k.E.Ev(kind + ".call")
	k.mu.Lock()
	k.Ctl = append(k.Ctl, c)
	k.mu.Unlock()
	err := f()
	ret := k.E.Ev(kind+".ret", err)
	k.mu.Lock()
	c.Err = err
	c.Ret = ret
	k.mu.Unlock()
	return c
}

// VirtualDeadline bounds every blocking client call on the fake clock. Fake time only advances
// when every goroutine of the bubble is durably blocked, so on code that makes progress the
// deadline is never reached; it is far above the total virtual work of any program.
const VirtualDeadline = time.Second

// Await runs f in its own goroutine and waits for it on the fake clock. It returns false if
// the call had not returned when nothing else could run any more (a hang).
func (k *Kit) Await(f func()) bool {
	done := make(chan struct{})
	go func() { f(); close(done) }()
	tm := time.NewTimer(VirtualDeadline)
	defer tm.Stop()
	select {
	case <-done:
		return true
	case <-tm.C:
		return false
	}
}

// OpenCalls lists control calls that have not returned.
func (k *Kit) OpenCalls() []string {
	k.mu.Lock()
	defer k.mu.Unlock()
	var r []string
	for _, c := range k.Ctl {
		if c.Ret == 0 {
			r = append(r, c.Kind)
		}
	}
	return r
}

// CtlCopy returns a snapshot of the control-call records.
func (k *Kit) CtlCopy() []CtlRec {
	k.mu.Lock()
	defer k.mu.Unlock()
	var r []CtlRec
	for _, c := range k.Ctl {
		r = append(r, *c)
	}
	return r
}

func (k *Kit) Control(w varmq.Worker, kind string, arg int) *CtlRec {
	switch kind {
	case "Pause":
		return k.Call(kind, 0, w.Pause)
	case "PauseAndWait":
		return k.Call(kind, 0, w.PauseAndWait)
	case "Resume":
		return k.Call(kind, 0, w.Resume)
	case "Stop":
		return k.Call(kind, 0, w.Stop)
	case "WaitAndStop":
		return k.Call(kind, 0, w.WaitAndStop)
	case "Restart":
		return k.Call(kind, 0, w.Restart)
	case "TunePool":
		return k.Call(kind, arg, func() error { return w.TunePool(arg) })
	case "WaitUntilFinished":
		return k.Call(kind, 0, func() error { w.WaitUntilFinished(); return nil })
	}
	panic("unknown control " + kind)
}

// Sample summarises the episode for evidence files.
func (k *Kit) Sample(desc string) map[string]any {
	return map[string]any{"program": desc, "history": k.E.LogCopy(60)}
}
