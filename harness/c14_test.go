package vharness

// C14 - lifecycle state machine: all call sequences up to a bound (exhaustively) and longer random
// ones are run against the real worker and compared, call by call, with a reference machine
// (DESIGN.md §6 C14). Reference = the explicit clauses of the property statement, and for every
// other (state, call) pair the transition of the code as it is.

import (
	"context"
	"fmt"
	"strings"
	"sync"
	"testing/synctest"
	"time"

	"github.com/goptics/varmq"
)

func init() { registry["C14"] = runC14 }

var fsmOps = []string{"Bind", "Pause", "PauseAndWait", "Resume", "Stop", "WaitAndStop", "Restart", "TuneNew", "TuneSame", "CtxCancel"}

type fsmCfg struct {
	Ctx    bool
	Expiry bool
	Jobs   bool
}

func (c fsmCfg) String() string { return fmt.Sprintf("ctx=%v expiry=%v jobs=%v", c.Ctx, c.Expiry, c.Jobs) }

type fsmModel struct {
	state     string
	cancelled bool // parent context cancelled
	hasCtx    bool
	conc      int
}

// step returns the expected error class ("nil", "running", "notrunning", "same") and updates the state.
func (m *fsmModel) step(op string) string {
	enterRunning := func() {
		m.state = "Running"
		if m.hasCtx && m.cancelled {
			// the run's context is already done: its listener stops the worker at once
			m.state = "Stopped"
		}
	}
	switch op {
	case "Bind":
		if m.state == "Initiated" {
			enterRunning()
		}
		return "nil"
	case "Pause", "PauseAndWait":
		switch m.state {
		case "Initiated":
			return "notrunning"
		case "Running":
			m.state = "Paused"
		}
		return "nil"
	case "Resume":
		switch m.state {
		case "Initiated":
			enterRunning()
			return "nil"
		case "Running":
			return "running"
		case "Paused":
			m.state = "Running"
			return "nil"
		default:
			return "notrunning"
		}
	case "Stop", "WaitAndStop":
		switch m.state {
		case "Initiated":
			return "notrunning"
		default:
			m.state = "Stopped"
			return "nil"
		}
	case "Restart":
		enterRunning()
		return "nil"
	case "TuneNew":
		if m.state != "Running" {
			return "notrunning"
		}
		m.conc++
		return "nil"
	case "TuneSame":
		if m.state != "Running" {
			return "notrunning"
		}
		return "same"
	case "CtxCancel":
		if m.hasCtx {
			m.cancelled = true
			if m.state == "Running" || m.state == "Paused" {
				m.state = "Stopped"
			}
		}
		return "nil"
	}
	panic(op)
}

func errClass(err error) string {
	switch {
	case err == nil:
		return "nil"
	case isErr(err, varmq.ErrRunningWorker):
		return "running"
	case isErr(err, varmq.ErrNotRunningWorker):
		return "notrunning"
	case isErr(err, varmq.ErrSameConcurrency):
		return "same"
	}
	return "other:" + err.Error()
}

// epFSM runs one call sequence. bindKinds[i] selects the bind method used at position i.
func epFSM(c *RunCtx, cfg fsmCfg, seq []int, salt int) *Result {
	e := NewEnv(c.Prop)
	var names []string
	for _, s := range seq {
		names = append(names, fsmOps[s])
	}
	desc := cfg.String() + " seq=" + strings.Join(names, ",")
	ended := false
	out := RunBubble(c.T, func(bid string) {
		ran := map[int]int{}
		var ranMu sync.Mutex
		var cancel context.CancelFunc
		var wcfg []any
		wcfg = append(wcfg, 2)
		if cfg.Ctx {
			var ctx context.Context
			ctx, cancel = context.WithCancel(context.Background())
			defer cancel()
			wcfg = append(wcfg, varmq.WithContext(ctx))
		}
		if cfg.Expiry {
			wcfg = append(wcfg, varmqExpiry(time.Millisecond))
		}
		nextJob := 0
		w := varmq.NewWorker(func(j varmq.Job[int]) {
			if cfg.Jobs {
				time.Sleep(time.Microsecond)
			}
			ranMu.Lock()
			ran[j.Data()]++
			ranMu.Unlock()
		}, wcfg...)
		var adders []func(int) bool
		m := &fsmModel{state: "Initiated", hasCtx: cfg.Ctx, conc: 2}
		settle := func() {
			if cfg.Jobs {
				time.Sleep(20 * time.Microsecond)
			}
			synctest.Wait()
		}
		bind := func(pos int) {
			kind := QK((pos*7 + salt) % 6)
			switch kind {
			case QFifo:
				q := w.BindQueue()
				adders = append(adders, func(d int) bool { _, ok := q.Add(d); return ok })
			case QPrio:
				q := w.BindPriorityQueue()
				adders = append(adders, func(d int) bool { _, ok := q.Add(d, 0); return ok })
			case QPers:
				q := w.WithPersistentQueue(NewLedger(nil, false).Q())
				adders = append(adders, func(d int) bool { return q.Add(d) })
			case QPersPrio:
				q := w.WithPersistentPriorityQueue(NewLedger(nil, true).PQ())
				adders = append(adders, func(d int) bool { return q.Add(d, 0) })
			case QDist:
				q := w.WithDistributedQueue(NewLedger(nil, false).Q())
				adders = append(adders, func(d int) bool { return q.Add(d) })
			case QDistPrio:
				q := w.WithDistributedPriorityQueue(NewLedger(nil, true).PQ())
				adders = append(adders, func(d int) bool { return q.Add(d, 0) })
			}
		}
		for pos, s := range seq {
			op := fsmOps[s]
			before := m.state
			if cfg.Jobs && len(adders) > 0 {
				adders[pos%len(adders)](nextJob)
				nextJob++
			}
			var err error
			call := func() {
				switch op {
				case "Bind":
					bind(pos)
				case "Pause":
					err = w.Pause()
				case "PauseAndWait":
					err = w.PauseAndWait()
				case "Resume":
					err = w.Resume()
				case "Stop":
					err = w.Stop()
				case "WaitAndStop":
					err = w.WaitAndStop()
				case "Restart":
					err = w.Restart()
				case "TuneNew":
					err = w.TunePool(m.conc + 1)
				case "TuneSame":
					err = w.TunePool(w.NumConcurrency())
				case "CtxCancel":
					if cancel != nil {
						cancel()
					}
				}
			}
			done := make(chan struct{})
			go func() { call(); close(done) }()
			tm := time.NewTimer(VirtualDeadline)
			select {
			case <-done:
				tm.Stop()
			case <-tm.C:
				hangFail(e, "C14", "call-hang/"+before+"/"+op, bid)
				return
			}
			want := m.step(op)
			settle()
			e.Ev(op)
			e.Stat("tr_"+before+"_"+op, 1)
			if got := errClass(err); got != want {
				e.Fail("C14", "error", fmt.Sprintf("state=%s,call=%s,got=%s,want=%s", before, op, got, want),
					fmt.Sprintf("%s: %s on a %s worker returned %v, reference machine says %s", desc, op, before, err, want))
			}
			got := w.Status()
			if got != m.state {
				e.Fail("C14", "transition", fmt.Sprintf("state=%s,call=%s,got=%s,want=%s", before, op, got, m.state),
					fmt.Sprintf("%s: after %s on a %s worker the status is %s, reference machine says %s", desc, op, before, got, m.state))
				return
			}
			if w.IsRunning() != (got == "Running") || w.IsPaused() != (got == "Paused") || w.IsStopped() != (got == "Stopped") {
				e.Fail("C14", "predicates", got, fmt.Sprintf("%s: Status=%s but IsRunning=%v IsPaused=%v IsStopped=%v", desc, got, w.IsRunning(), w.IsPaused(), w.IsStopped()))
			}
		}
		// probe: a job submitted now runs iff the reference state is Running
		if len(adders) == 0 {
			before := m.state
			bind(len(seq))
			m.step("Bind")
			settle()
			if w.Status() != m.state {
				e.Fail("C14", "transition", fmt.Sprintf("state=%s,call=Bind(probe),got=%s,want=%s", before, w.Status(), m.state), desc)
				return
			}
		}
		probe := 1000000
		okAdd := adders[len(adders)-1](probe)
		time.Sleep(50 * time.Microsecond)
		synctest.Wait()
		if !okAdd {
			e.Fail("C14", "probe-rejected", m.state, desc+": probe submission rejected")
		}
		if m.state == "Running" && ran[probe] != 1 {
			e.Fail("C14", "running-but-not-processing", "", fmt.Sprintf("%s: the worker reports %s but the probe job did not run (pending=%d processing=%d)", desc, w.Status(), w.NumPending(), w.NumProcessing()))
		}
		if m.state != "Running" && ran[probe] != 0 {
			e.Fail("C14", "processing-while-"+m.state, "", fmt.Sprintf("%s: probe job ran although the worker is %s", desc, m.state))
		}
		// Restart always leaves a running worker that processes what is pending (unless its context is gone)
		wantRun := m.step("Restart")
		_ = wantRun
		if err := w.Restart(); err != nil {
			e.Fail("C14", "error", fmt.Sprintf("final-restart,got=%s", errClass(err)), desc)
		}
		time.Sleep(100 * time.Microsecond)
		synctest.Wait()
		if w.Status() != m.state {
			e.Fail("C14", "transition", fmt.Sprintf("final-restart,got=%s,want=%s", w.Status(), m.state), desc+": status after the final Restart")
		}
		if m.state == "Running" {
			if ran[probe] != 1 {
				e.Fail("C14", "restart-does-not-process", "", fmt.Sprintf("%s: after Restart the pending probe job ran %d times (pending=%d)", desc, ran[probe], w.NumPending()))
			}
			for i := 0; i < nextJob; i++ {
				if ran[i] != 1 {
					e.Fail("C01", "not-exactly-once", "fsm", fmt.Sprintf("%s: job %d ran %d times", desc, i, ran[i]))
				}
			}
		}
		w.Stop()
		synctest.Wait()
		if by, total, det := Census(bid); total != 0 {
			e.Fail("C18", "goroutines-after-stop", creators(by), fmt.Sprintf("%s: %d library goroutines remain: %v\n%s", desc, total, by, strings.Join(det, "\n")))
		}
		ended = true
	})
	switch out.Kind {
	case "hang":
		e.Fail("C14", "hang", blockedLibFrames(out.Stacks), desc+": "+out.Msg+"\n"+out.Stacks)
	case "leak":
		if ended {
			e.Fail("C18", "leak-after-stop", blockedLibFrames(out.Stacks), desc+": "+out.Msg)
		}
	case "panic":
		e.Fail("C14", "panic", "", desc+": "+out.Msg+"\n"+out.Stacks)
	}
	if len(seq) >= 2 {
		e.Nontrivial()
	}
	r := e.Result(map[string]any{"config": cfg.String(), "sequence": names})
	r.Sig = desc
	return r
}

func runC14(c *RunCtx) {
	L := c.Q(4, 5)
	nops := len(fsmOps)
	cfgIdx := 0
	for _, ctx := range []bool{false, true} {
		for _, exp := range []bool{false, true} {
			for _, jobs := range []bool{false, true} {
				cfg := fsmCfg{Ctx: ctx, Expiry: exp, Jobs: jobs}
				cfgIdx++
				for a := 0; a < nops; a++ {
					for b := 0; b < nops; b++ {
						a, b := a, b
						c.Program(fmt.Sprintf("enum/%s/%s,%s", cfg, fsmOps[a], fsmOps[b]), func(p *Prog) {
							if b == 0 {
								p.Case([]int{a}, func() *Result { return epFSM(c, cfg, []int{a}, cfgIdx) })
							}
							var rec func(seq []int)
							rec = func(seq []int) {
								s := append([]int{}, seq...)
								p.Case(s, func() *Result { return epFSM(c, cfg, s, cfgIdx) })
								if len(seq) >= L {
									return
								}
								for x := 0; x < nops; x++ {
									rec(append(append([]int{}, seq...), x))
								}
							}
							rec([]int{a, b})
						})
					}
				}
			}
		}
	}
	// longer random sequences, with stalls around the asynchronous context listener
	for v := 0; v < c.Q(32, 200); v++ {
		c.Program(fmt.Sprintf("random/%d", v), func(p *Prog) {
			cfg := fsmCfg{Ctx: p.Rng.Chance(70), Expiry: p.Rng.Bool(), Jobs: p.Rng.Bool()}
			n := 6 + p.Rng.Intn(15)
			seq := make([]int, n)
			for i := range seq {
				seq[i] = p.Rng.Intn(nops)
				// keep the context alive for most of the sequence
				if fsmOps[seq[i]] == "CtxCancel" && p.Rng.Chance(70) {
					seq[i] = 6
				}
			}
			p.Explore(func(pl Plan) *Result { return epFSM(c, cfg, seq, v) },
				ExploreOpts{Base: 2, K: c.Q(2, 4), Funcs: []string{"goListenToContext", "Stop", "Restart", "start", "Pause", "Resume", "closeChannels", "stopTickers", "goEventLoop", "TunePool"}, Pairs: c.Q(10, 60), MaxCases: c.Q(100, 1500)})
		})
	}
}
