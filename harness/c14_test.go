package vharness

// C14 - lifecycle state machine: all call sequences up to a bound (exhaustively) and longer random
// ones are run against the real worker and compared, call by call, with a reference machine
// (DESIGN.md §6 C14). Reference = the explicit clauses of the property statement, and for every
// other (state, call) pair the transition of the code as it is.

import (
	"context"
	"fmt"
	"strings"
	"sync"
	"testing/synctest"
	"time"

	"github.com/goptics/varmq"
)

func init() { registry["C14"] = runC14 }

var fsmOps = []string{"Bind", "Pause", "PauseAndWait", "Resume", "Stop", "WaitAndStop", "Restart", "TuneNew", "TuneSame", "CtxCancel"}

type fsmCfg struct {
	Ctx    bool
	Expiry bool
	Jobs   bool
}

func (c fsmCfg) String() string {
	return fmt.Sprintf("ctx=%v expiry=%v jobs=%v", c.Ctx, c.Expiry, c.Jobs)
}

type fsmModel struct {
	state     string
	cancelled bool // parent context cancelled
	hasCtx    bool
	conc      int
}

// step returns the expected error class ("nil", "running", "notrunning", "same") and updates the state.
func (m *fsmModel) step(op string) string {
	enterRunning := func() {
		m.state = "Running"
		if m.hasCtx && m.cancelled {
			// the run's context is already done: its listener stops the worker at once
			m.state = "Stopped"
		}
	}
	switch op {
	case "Bind":
		if m.state == "Initiated" {
			enterRunning()
		}
		return "nil"
	case "Pause", "PauseAndWait":
		switch m.state {
		case "Initiated":
			return "notrunning"
		case "Running":
			m.state = "Paused"
		}
		return "nil"
	case "Resume":
		switch m.state {
		case "Initiated":
			enterRunning()
			return "nil"
		case "Running":
			return "running"
		case "Paused":
			m.state = "Running"
			return "nil"
		default:
			return "notrunning"
		}
	case "Stop", "WaitAndStop":
		switch m.state {
		case "Initiated":
			return "notrunning"
		default:
			m.state = "Stopped"
			return "nil"
		}
	case "Restart":
		enterRunning()
		return "nil"
	case "TuneNew":
		if m.state != "Running" {
			return "notrunning"
		}
		m.conc++
		return "nil"
	case "TuneSame":
		if m.state != "Running" {
			return "notrunning"
		}
		return "same"
	case "CtxCancel":
		if m.hasCtx {
			m.cancelled = true
			if m.state == "Running" || m.state == "Paused" {
				m.state = "Stopped"
			}
		}
		return "nil"
	}
	panic(op)
}

// failingAcks: the adapter refuses its first acknowledgements (a backend hiccup); the lifecycle must not care
func failingAcks(l *Ledger) *Ledger {
	l.FailAck[1], l.FailAck[2], l.FailAck[3] = true, true, true
	// ... and single dequeues: the dispatcher reports the error and goes on
	l.FailDeq[1], l.FailDeq[4] = true, true
	return l
}

func errClass(err error) string {
	switch {
	case err == nil:
		return "nil"
	case isErr(err, varmq.ErrRunningWorker):
		return "running"
	case isErr(err, varmq.ErrNotRunningWorker):
		return "notrunning"
	case isErr(err, varmq.ErrSameConcurrency):
		return "same"
	}
	return "other:" + err.Error()
}

// epFSM runs one call sequence. bindKinds[i] selects the bind method used at position i.
func epFSM(c *RunCtx, cfg fsmCfg, seq []int, salt int) *Result {
	e := NewEnv(c.Prop)
	var names []string
	for _, s := range seq {
		names = append(names, fsmOps[s])
	}
	desc := cfg.String() + " seq=" + strings.Join(names, ",")
	ended := false
	out := RunBubble(c.T, func(bid string) {
		ran := map[int]int{}
		var ranMu sync.Mutex
		var cancel context.CancelFunc
		var wcfg []any
		wcfg = append(wcfg, 2)
		if cfg.Ctx {
			var ctx context.Context
			ctx, cancel = context.WithCancel(context.Background())
			defer cancel()
			wcfg = append(wcfg, varmq.WithContext(ctx))
		}
		if cfg.Expiry {
			wcfg = append(wcfg, varmqExpiry(time.Millisecond))
		}
		nextJob := 0
		w := varmq.NewWorker(func(j varmq.Job[int]) {
			if cfg.Jobs {
				time.Sleep(time.Microsecond)
			}
			ranMu.Lock()
			ran[j.Data()]++
			ranMu.Unlock()
		}, wcfg...)
		var adders []func(int) bool
		m := &fsmModel{state: "Initiated", hasCtx: cfg.Ctx, conc: 2}
		settle := func() {
			if cfg.Jobs {
				time.Sleep(20 * time.Microsecond)
			}
			synctest.Wait()
		}
		bind := func(pos int) {
			kind := QK((pos*7 + salt) % 6)
			switch kind {
			case QFifo:
				q := w.BindQueue()
				adders = append(adders, func(d int) bool { _, ok := q.Add(d); return ok })
			case QPrio:
				q := w.BindPriorityQueue()
				adders = append(adders, func(d int) bool { _, ok := q.Add(d, 0); return ok })
			case QPers:
				q := w.WithPersistentQueue(failingAcks(NewLedger(nil, false)).Q())
				adders = append(adders, func(d int) bool { return q.Add(d) })
			case QPersPrio:
				q := w.WithPersistentPriorityQueue(failingAcks(NewLedger(nil, true)).PQ())
				adders = append(adders, func(d int) bool { return q.Add(d, 0) })
			case QDist:
				q := w.WithDistributedQueue(failingAcks(NewLedger(nil, false)).Q())
				adders = append(adders, func(d int) bool { return q.Add(d) })
			case QDistPrio:
				q := w.WithDistributedPriorityQueue(failingAcks(NewLedger(nil, true)).PQ())
				adders = append(adders, func(d int) bool { return q.Add(d, 0) })
			}
		}
		for pos, s := range seq {
			op := fsmOps[s]
			before := m.state
			if cfg.Jobs && len(adders) > 0 {
				adders[pos%len(adders)](nextJob)
				nextJob++
			}
			var err error
			call := func() {
				switch op {
				case "Bind":
					bind(pos)
				case "Pause":
					err = w.Pause()
				case "PauseAndWait":
					err = w.PauseAndWait()
				case "Resume":
					err = w.Resume()
				case "Stop":
					err = w.Stop()
				case "WaitAndStop":
					err = w.WaitAndStop()
				case "Restart":
					err = w.Restart()
				case "TuneNew":
					err = w.TunePool(m.conc + 1)
				case "TuneSame":
					err = w.TunePool(w.NumConcurrency())
				case "CtxCancel":
					if cancel != nil {
						cancel()
					}
				}
			}
			done := make(chan struct{})
			go func() { call(); close(done) }()
			tm := time.NewTimer(VirtualDeadline)
			select {
			case <-done:
				tm.Stop()
			case <-tm.C:
				hangFail(e, "C14", "call-hang/"+before+"/"+op, bid)
				return
			}
			want := m.step(op)
			settle()
			e.Ev(op)
			e.Stat("tr_"+before+"_"+op, 1)
			if got := errClass(err); got != want {
				e.Fail("C14", "error", fmt.Sprintf("state=%s,call=%s,got=%s,want=%s", before, op, got, want),
					fmt.Sprintf("%s: %s on a %s worker returned %v, reference machine says %s", desc, op, before, err, want))
			}
			got := w.Status()
			if got != m.state {
				e.Fail("C14", "transition", fmt.Sprintf("state=%s,call=%s,got=%s,want=%s", before, op, got, m.state),
					fmt.Sprintf("%s: after %s on a %s worker the status is %s, reference machine says %s", desc, op, before, got, m.state))
				return
			}
			if cfg.Jobs && got == "Running" && (w.NumPending() != 0 || w.NumProcessing() != 0) {
				e.Fail("C14", "running-but-not-processing", "after="+op, fmt.Sprintf("%s: after %s the worker reports Running and everything is quiescent, but pending=%d processing=%d", desc, op, w.NumPending(), w.NumProcessing()))
			}
			if w.IsRunning() != (got == "Running") || w.IsPaused() != (got == "Paused") || w.IsStopped() != (got == "Stopped") {
				e.Fail("C14", "predicates", got, fmt.Sprintf("%s: Status=%s but IsRunning=%v IsPaused=%v IsStopped=%v", desc, got, w.IsRunning(), w.IsPaused(), w.IsStopped()))
			}
		}
		// probe: a job submitted now runs iff the reference state is Running
		if len(adders) == 0 {
			before := m.state
			bind(len(seq))
			m.step("Bind")
			settle()
			if w.Status() != m.state {
				e.Fail("C14", "transition", fmt.Sprintf("state=%s,call=Bind(probe),got=%s,want=%s", before, w.Status(), m.state), desc)
				return
			}
		}
		probe := 1000000
		okAdd := adders[len(adders)-1](probe)
		time.Sleep(50 * time.Microsecond)
		synctest.Wait()
		if !okAdd {
			e.Fail("C14", "probe-rejected", m.state, desc+": probe submission rejected")
		}
		if m.state == "Running" && ran[probe] != 1 {
			e.Fail("C14", "running-but-not-processing", "", fmt.Sprintf("%s: the worker reports %s but the probe job did not run (pending=%d processing=%d)", desc, w.Status(), w.NumPending(), w.NumProcessing()))
		}
		if m.state != "Running" && ran[probe] != 0 {
			e.Fail("C14", "processing-while-"+m.state, "", fmt.Sprintf("%s: probe job ran although the worker is %s", desc, m.state))
		}
		// Restart always leaves a running worker that processes what is pending (unless its context is gone)
		wantRun := m.step("Restart")
		_ = wantRun
		if err := w.Restart(); err != nil {
			e.Fail("C14", "error", fmt.Sprintf("final-restart,got=%s", errClass(err)), desc)
		}
		time.Sleep(100 * time.Microsecond)
		synctest.Wait()
		if w.Status() != m.state {
			e.Fail("C14", "transition", fmt.Sprintf("final-restart,got=%s,want=%s", w.Status(), m.state), desc+": status after the final Restart")
		}
		if m.state == "Running" {
			if ran[probe] != 1 {
				e.Fail("C14", "restart-does-not-process", "", fmt.Sprintf("%s: after Restart the pending probe job ran %d times (pending=%d)", desc, ran[probe], w.NumPending()))
			}
			for i := 0; i < nextJob; i++ {
				if ran[i] != 1 {
					e.Fail("C01", "not-exactly-once", "fsm", fmt.Sprintf("%s: job %d ran %d times", desc, i, ran[i]))
				}
			}
		}
		w.Stop()
		synctest.Wait()
		if by, total, det := Census(bid); total != 0 {
			e.Fail("C18", "goroutines-after-stop", creators(by), fmt.Sprintf("%s: %d library goroutines remain: %v\n%s", desc, total, by, strings.Join(det, "\n")))
		}
		ended = true
	})
	switch out.Kind {
	case "hang":
		e.Fail("C14", "hang", blockedLibFrames(out.Stacks), desc+": "+out.Msg+"\n"+out.Stacks)
	case "leak":
		if ended {
			e.Fail("C18", "leak-after-stop", blockedLibFrames(out.Stacks), desc+": "+out.Msg)
		}
	case "panic":
		e.Fail("C14", "panic", "", desc+": "+out.Msg+"\n"+out.Stacks)
	}
	if len(seq) >= 2 {
		e.Nontrivial()
	}
	r := e.Result(map[string]any{"config": cfg.String(), "sequence": names})
	r.Sig = desc
	return r
}

func runC14(c *RunCtx) {
	L := c.Q(4, 5)
	nops := len(fsmOps)
	cfgIdx := 0
	for _, ctx := range []bool{false, true} {
		for _, exp := range []bool{false, true} {
			for _, jobs := range []bool{false, true} {
				cfg := fsmCfg{Ctx: ctx, Expiry: exp, Jobs: jobs}
				cfgIdx++
				for a := 0; a < nops; a++ {
					for b := 0; b < nops; b++ {
						a, b := a, b
						c.Program(fmt.Sprintf("enum/%s/%s,%s", cfg, fsmOps[a], fsmOps[b]), func(p *Prog) {
							if b == 0 {
								p.Case([]int{a}, func() *Result { return epFSM(c, cfg, []int{a}, cfgIdx) })
							}
							var rec func(seq []int)
							rec = func(seq []int) {
								s := append([]int{}, seq...)
								p.Case(s, func() *Result { return epFSM(c, cfg, s, cfgIdx) })
								if len(seq) >= L {
									return
								}
								for x := 0; x < nops; x++ {
									rec(append(append([]int{}, seq...), x))
								}
							}
							rec([]int{a, b})
						})
					}
				}
			}
		}
	}
	ctxRacePrograms(c, 64, 400)
	cyclesPrograms(c, 32, 160)
	ctxInflightPrograms(c, 16, 80)
	// full workloads on a worker configured with a context, scripts made of Stop/Restart/Pause/Resume:
	// the listener of every earlier run is still around when the next run starts
	richPrograms(c, "rich-ctx", 48, 240, richBias{MaxJobs: 6, Cancel: 10, Script: 6, Expiry: 30, RestartHeavy: true, Ctx: 100},
		ExploreOpts{Base: 3, Noise: c.Q(30, 120), K: c.Q(2, 4), Funcs: anchoredOr(c, []string{"Restart", "Stop", "stop", "start", "startLocked", "Pause", "Resume", "PauseAndWait", "closeChannels", "goEventLoop"}), Pairs: c.Q(20, 120), MaxCases: c.Q(200, 3000)})
	concLifePrograms(c, 48, 300)
	// longer random sequences, with stalls around the asynchronous context listener
	for v := 0; v < c.Q(32, 200); v++ {
		c.Program(fmt.Sprintf("random/%d", v), func(p *Prog) {
			cfg := fsmCfg{Ctx: p.Rng.Chance(70), Expiry: p.Rng.Bool(), Jobs: p.Rng.Bool()}
			n := 6 + p.Rng.Intn(15)
			seq := make([]int, n)
			for i := range seq {
				seq[i] = p.Rng.Intn(nops)
				// keep the context alive for most of the sequence
				if fsmOps[seq[i]] == "CtxCancel" && p.Rng.Chance(70) {
					seq[i] = 6
				}
			}
			p.Explore(func(pl Plan) *Result { return epFSM(c, cfg, seq, v) },
				ExploreOpts{Base: 2, K: c.Q(2, 4), Funcs: []string{"goListenToContext", "Stop", "Restart", "start", "Pause", "Resume", "closeChannels", "stopTickers", "goEventLoop", "TunePool"}, Pairs: c.Q(10, 60), MaxCases: c.Q(100, 1500)})
		})
	}
}

// epConcLife: lifecycle calls issued by two or three goroutines at once. The resulting state is
// schedule dependent, so the reference machine is not applied; what every interleaving must
// preserve is checked at quiescence: a worker that reports Running processes a probe job, a
// paused one does after Resume, a stopped one after Restart, and nothing leaks after the final Stop.
func epConcLife(c *RunCtx, withCtx, fresh bool, scripts [][]string) *Result {
	e := NewEnv(c.Prop)
	desc := fmt.Sprintf("concurrent-lifecycle ctx=%v fresh=%v scripts=%v", withCtx, fresh, scripts)
	out := RunBubble(c.T, func(bid string) {
		var ranMu sync.Mutex
		ran := map[int]int{}
		var wcfg []any
		wcfg = append(wcfg, 2)
		if withCtx {
			ctx, cancel := context.WithCancel(context.Background())
			defer cancel()
			wcfg = append(wcfg, varmq.WithContext(ctx))
		}
		w := varmq.NewWorker(func(j varmq.Job[int]) {
			ranMu.Lock()
			ran[j.Data()]++
			ranMu.Unlock()
		}, wcfg...)
		// fresh: nothing is bound before the concurrent calls, the binds are part of them
		var q varmq.Queue[int]
		if !fresh {
			q = w.BindQueue()
		}
		k := NewKit(e, 0)
		var wg sync.WaitGroup
		for gi, sc := range scripts {
			wg.Add(1)
			go func() {
				defer wg.Done()
				mine := q
				for i, op := range sc {
					switch op {
					case "Bind":
						if (gi+i)%2 == 0 {
							mine = w.BindQueue()
						} else {
							w.BindPriorityQueue()
						}
					case "Pause":
						w.Pause()
					case "Resume":
						w.Resume()
					case "Stop":
						w.Stop()
					case "Restart":
						w.Restart()
					case "PauseAndWait":
						w.PauseAndWait()
					case "Add":
						if mine != nil {
							mine.Add(gi*100 + i)
						}
					case "Tune":
						w.TunePool(1 + (gi+i)%4)
					}
					e.Ev(op)
				}
			}()
		}
		if !k.Await(wg.Wait) {
			hangFail(e, "C14", "concurrent-lifecycle-call", bid)
			return
		}
		time.Sleep(50 * time.Microsecond)
		synctest.Wait()
		if q == nil {
			q = w.BindQueue() // starts the worker if it is still Initiated
			synctest.Wait()
		}
		st := w.Status()
		switch st {
		case "Paused":
			w.Resume()
		case "Stopped", "Initiated":
			w.Restart()
		}
		probe := 999999
		q.Add(probe)
		time.Sleep(50 * time.Microsecond)
		synctest.Wait()
		ranMu.Lock()
		pr := ran[probe]
		ranMu.Unlock()
		if w.Status() == "Running" && pr != 1 {
			by, _, det := Census(bid)
			e.Fail("C14", "running-but-not-processing", "concurrent/"+st, fmt.Sprintf("%s: status after the concurrent calls was %s; the worker now reports %s but the probe job ran %d times (pending=%d processing=%d, library goroutines %v)\n%s", desc, st, w.Status(), pr, w.NumPending(), w.NumProcessing(), by, strings.Join(det, "\n")))
		}
		if w.Status() != "Running" {
			e.Fail("C14", "not-running-after-resume-or-restart", st, fmt.Sprintf("%s: status %s after bringing a %s worker back", desc, w.Status(), st))
		}
		if !k.Await(func() { w.Stop() }) {
			hangFail(e, "C06", "Stop(final)", bid)
			return
		}
		synctest.Wait()
		if by, total, det := Census(bid); total != 0 {
			e.Fail("C18", "goroutines-after-stop", creators(by), fmt.Sprintf("%s: %d library goroutines remain: %v\n%s", desc, total, by, strings.Join(det, "\n")))
		}
	})
	switch out.Kind {
	case "hang":
		e.Fail("C14", "hang", "concurrent/"+blockedLibFrames(out.Stacks), desc+": "+out.Msg+"\n"+out.Stacks)
	case "panic":
		e.Fail("C14", "panic", "concurrent", desc+": "+out.Msg+"\n"+out.Stacks)
	}
	e.Nontrivial()
	r := e.Result(map[string]any{"program": desc})
	return r
}

func concLifePrograms(c *RunCtx, nq, nt int) {
	ops := []string{"Pause", "Resume", "Resume", "Stop", "Restart", "Restart", "PauseAndWait", "Add", "Add", "Tune"}
	for v := 0; v < c.Q(nq, nt); v++ {
		c.Program(fmt.Sprintf("concurrent/%d", v), func(p *Prog) {
			r := p.Rng
			var scripts [][]string
			for g := 0; g < 2+r.Intn(2); g++ {
				var sc []string
				for i := 0; i < 2+r.Intn(6); i++ {
					sc = append(sc, ops[r.Intn(len(ops))])
				}
				scripts = append(scripts, sc)
			}
			withCtx := r.Bool()
			fresh := v%3 == 2
			if fresh {
				// binds race each other on a worker that was never started; one of the binders goes on to pause or
				// stop the worker at once, while the others may still be on their way into their first bind.
				// Short scripts: a later Restart would paper over whatever the race left behind.
				n := len(scripts)
				scripts = nil
				for g := 0; g < n-1; g++ {
					sc := []string{"Bind"}
					if r.Chance(40) {
						sc = append(sc, Pick(r, "Add", "Bind", "Tune", "Pause", "Resume"))
					}
					scripts = append(scripts, sc)
				}
				scripts = append(scripts, []string{"Bind", Pick(r, "Stop", "Pause", "Stop", "PauseAndWait")})
			}
			if fresh {
				// few sites, all of them explored: the binders' way into their first start
				p.Explore(func(pl Plan) *Result { return epConcLife(c, withCtx, fresh, scripts) },
					ExploreOpts{Base: 4, Noise: c.Q(10, 40), K: 3, Funcs: []string{"start", "BindQueue", "bindQueue"}, Pairs: c.Q(10, 60), MaxCases: c.Q(150, 1000)})
				return
			}
			p.Explore(func(pl Plan) *Result { return epConcLife(c, withCtx, fresh, scripts) },
				ExploreOpts{Base: 4, K: c.Q(3, 6), Funcs: []string{"Restart", "Resume", "start", "Stop", "Pause", "closeChannels", "goEventLoop", "goListenToContext", "stopTickers", "stopAndRemoveAllWorkers"}, Pairs: c.Q(20, 100), MaxCases: c.Q(150, 2000)})
		})
	}
}

// epCtxRace: one client goroutine issues lifecycle calls; at some point the configured context is
// cancelled WITHOUT letting the bubble settle, so the asynchronous listener's Stop overlaps the
// client's next calls (the interleaving the property quantifies over). Whatever the interleaving,
// once everything is quiescent a worker whose context is cancelled must be Stopped, must not
// process, must end Stopped again after Restart (its parent context is gone), and leak nothing.
func epCtxRace(c *RunCtx, pre, post []string, expiry bool) *Result {
	e := NewEnv(c.Prop)
	desc := fmt.Sprintf("ctx-race expiry=%v pre=%v cancel post=%v", expiry, pre, post)
	out := RunBubble(c.T, func(bid string) {
		var ranMu sync.Mutex
		ran := map[int]int{}
		ctx, cancel := context.WithCancel(context.Background())
		defer cancel()
		wcfg := []any{2, varmq.WithContext(ctx)}
		if expiry {
			wcfg = append(wcfg, varmqExpiry(time.Millisecond))
		}
		w := varmq.NewWorker(func(j varmq.Job[int]) {
			ranMu.Lock()
			ran[j.Data()]++
			ranMu.Unlock()
		}, wcfg...)
		q := w.BindQueue()
		k := NewKit(e, 0)
		call := func(op string, i int) {
			switch op {
			case "Pause":
				w.Pause()
			case "PauseAndWait":
				w.PauseAndWait()
			case "Resume":
				w.Resume()
			case "Stop":
				w.Stop()
			case "WaitAndStop":
				w.WaitAndStop()
			case "Restart":
				w.Restart()
			case "Tune":
				w.TunePool(2 + i%3)
			case "Add":
				q.Add(i)
			case "Bind":
				w.BindPriorityQueue()
			}
			e.Ev(op)
		}
		for i, op := range pre {
			call(op, i)
			synctest.Wait()
		}
		cancel()
		e.Ev("cancel")
		ok := k.Await(func() {
			for i, op := range post {
				call(op, 100+i)
			}
		})
		if !ok {
			hangFail(e, "C14", "call-hang-after-cancel", bid)
			return
		}
		time.Sleep(50 * time.Microsecond)
		synctest.Wait()
		if st := w.Status(); st != "Stopped" {
			by, _, _ := Census(bid)
			e.Fail("C14", "cancelled-context-not-stopped", st, fmt.Sprintf("%s: the configured context was cancelled and everything is quiescent, but the worker reports %s (library goroutines %v)", desc, st, by))
		}
		// a Restart cannot bring it back: the parent context is cancelled
		w.Restart()
		time.Sleep(50 * time.Microsecond)
		synctest.Wait()
		if st := w.Status(); st != "Stopped" {
			e.Fail("C14", "transition", "ctx-race/restart-after-cancel,got="+st, fmt.Sprintf("%s: Restart with a cancelled parent context ended %s", desc, st))
		}
		probe := 999999
		q.Add(probe)
		time.Sleep(50 * time.Microsecond)
		synctest.Wait()
		ranMu.Lock()
		pr := ran[probe]
		ranMu.Unlock()
		if pr != 0 {
			e.Fail("C14", "processing-while-Stopped", "ctx-race", fmt.Sprintf("%s: probe job ran on a worker whose context is cancelled", desc))
		}
		w.Stop()
		synctest.Wait()
		if by, total, det := Census(bid); total != 0 {
			e.Fail("C18", "goroutines-after-stop", creators(by), fmt.Sprintf("%s: %d library goroutines remain: %v\n%s", desc, total, by, strings.Join(det, "\n")))
			e.Fail("C14", "leak-after-cancel", creators(by), fmt.Sprintf("%s: %d library goroutines remain after the cancelled worker was stopped: %v", desc, total, by))
		}
	})
	switch out.Kind {
	case "hang":
		e.Fail("C14", "hang", "ctx-race/"+blockedLibFrames(out.Stacks), desc+": "+out.Msg+"\n"+out.Stacks)
	case "panic":
		e.Fail("C14", "panic", "ctx-race", desc+": "+out.Msg+"\n"+out.Stacks)
	}
	e.Nontrivial()
	return e.Result(map[string]any{"program": desc})
}

func ctxRacePrograms(c *RunCtx, nq, nt int) {
	ops := []string{"Pause", "PauseAndWait", "Resume", "Resume", "Stop", "WaitAndStop", "Restart", "Tune", "Add", "Add", "Bind"}
	for v := 0; v < c.Q(nq, nt); v++ {
		c.Program(fmt.Sprintf("ctx-race/%d", v), func(p *Prog) {
			r := p.Rng
			var pre, post []string
			for i := 0; i < r.Intn(4); i++ {
				pre = append(pre, ops[r.Intn(len(ops))])
			}
			for i := 0; i < 1+r.Intn(4); i++ {
				post = append(post, ops[r.Intn(len(ops))])
			}
			expiry := r.Bool()
			p.Explore(func(pl Plan) *Result { return epCtxRace(c, pre, post, expiry) },
				ExploreOpts{Base: 4, K: c.Q(3, 6), Funcs: []string{"goListenToContext", "Restart", "Resume", "start", "Stop", "Pause", "closeChannels", "stopTickers", "stopAndRemoveAllWorkers", "TunePool"}, Pairs: c.Q(20, 100), MaxCases: c.Q(150, 2000)})
		})
	}
}
