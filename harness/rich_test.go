package vharness

// The rich family: one generated client program (producers with single jobs and batches, a
// canceller, a purger, one lifecycle controller, handle waiters, status and counter samplers)
// observed by the oracles of several properties at once. A check records only the violations
// of its own property (Env.Fail), so one workload serves C01, C03, C05, C09, C10, C16, C17
// without one defect drowning the others (DESIGN.md §5.1).

import (
	"context"
	"fmt"
	"runtime"
	"strings"
	"sync"
	"sync/atomic"
	"testing/synctest"
	"time"

	"github.com/goptics/varmq"
)

type richJob struct {
	Prod   int
	Cancel int // 0 none, 1 by the producer right after Add, 2 by the canceller goroutine, 3 by a closer that waits for the Finished window
	Work   time.Duration
	Out    int // 0 ok, 1 error, 2 panic
	Batch  int // -1: single Add
	Prio   int
}

type ctlOp struct {
	Kind  string
	Arg   int
	Delay time.Duration
}

type richCfg struct {
	WK        WK
	QK        QK
	Conc      int
	Expiry    time.Duration
	Ratio     int
	Jobs      []richJob
	NBatch    int
	Prods     int
	Script    []ctlOp
	Purge     bool
	PurgeAt   time.Duration
	Waiters   int
	Samplers  bool
	ErrReader bool
	DblClose  bool
	Ctx       bool // the worker is configured with a context (which is never cancelled)
}

func (c richCfg) String() string {
	var sc []string
	for _, o := range c.Script {
		if o.Kind == "TunePool" {
			sc = append(sc, fmt.Sprintf("TunePool(%d)", o.Arg))
		} else {
			sc = append(sc, o.Kind)
		}
	}
	var js []string
	for i, j := range c.Jobs {
		js = append(js, fmt.Sprintf("%d:p%d,c%d,w%v,o%d,b%d,pr%d", i, j.Prod, j.Cancel, j.Work, j.Out, j.Batch, j.Prio))
	}
	return fmt.Sprintf("rich wk=%v qk=%v conc=%d exp=%v ratio=%d ctx=%v prods=%d purge=%v waiters=%d samplers=%v errReader=%v script=[%s] jobs=[%s]",
		c.WK, c.QK, c.Conc, c.Expiry, c.Ratio, c.Ctx, c.Prods, c.Purge, c.Waiters, c.Samplers, c.ErrReader, strings.Join(sc, " "), strings.Join(js, " "))
}

type richBias struct {
	MaxJobs    int
	Cancel     int // percent
	Purge      int
	Script     int // max script length
	Batches    int // percent chance of a batch
	Waiters    int
	Samplers   bool
	Outcomes   bool
	Expiry     int // percent
	Conc       []int
	PausesOnly bool
	// RestartHeavy: scripts made of Stop/Restart/Pause/Resume cycles and jobs that take virtual time,
	// so that the event loop of a previous run overlaps the next one
	RestartHeavy bool
	Ctx          int // percent of programs whose worker is configured with a context (default 35)
}

func drawRich(r *Rng, b richBias) richCfg {
	c := richCfg{}
	c.WK = Pick(r, WPlain, WErr, WResult)
	c.QK = Pick(r, QFifo, QPrio)
	conc := b.Conc
	if len(conc) == 0 {
		conc = []int{1, 1, 2, 2, 3, 8}
	}
	c.Conc = conc[r.Intn(len(conc))]
	if r.Chance(b.Expiry) {
		c.Expiry = Pick(r, 50*time.Microsecond, time.Millisecond, 10*time.Millisecond)
		c.Ratio = Pick(r, 1, 50, 100)
	}
	n := 1 + r.Intn(b.MaxJobs)
	c.Prods = 1 + r.Intn(min(n, 3))
	if r.Chance(b.Batches) {
		c.NBatch = 1 + r.Intn(2)
	}
	for i := 0; i < n; i++ {
		j := richJob{Prod: r.Intn(c.Prods), Batch: -1, Work: Pick(r, 0, 0, time.Microsecond, 20*time.Microsecond, time.Millisecond)}
		if r.Chance(b.Cancel) {
			j.Cancel = 1 + r.Intn(3)
		}
		if b.Outcomes {
			j.Out = Pick(r, 0, 0, 0, 1, 2)
		}
		if c.QK == QPrio {
			j.Prio = Pick(r, 0, 0, 1, -1, 5, 1<<40, -(1 << 40))
		}
		if c.NBatch > 0 && r.Chance(40) {
			j.Batch = r.Intn(c.NBatch)
			j.Cancel = 0
		}
		c.Jobs = append(c.Jobs, j)
	}
	// all items of a batch are submitted by one producer
	owner := map[int]int{}
	for i := range c.Jobs {
		if b := c.Jobs[i].Batch; b >= 0 {
			if p, ok := owner[b]; ok {
				c.Jobs[i].Prod = p
			} else {
				owner[b] = c.Jobs[i].Prod
			}
		}
	}
	// lifecycle script from a well-formed generator
	state := "Running"
	nops := r.Intn(b.Script + 1)
	for i := 0; i < nops; i++ {
		op := ctlOp{Delay: Pick(r, 0, 0, time.Microsecond, 30*time.Microsecond)}
		switch state {
		case "Running":
			if b.RestartHeavy {
				op.Kind = Pick(r, "Restart", "Restart", "Stop", "Stop", "PauseAndWait", "Pause")
			} else if b.PausesOnly {
				op.Kind = Pick(r, "PauseAndWait", "Pause", "Stop", "WaitAndStop", "PauseAndWait", "Stop")
			} else {
				op.Kind = Pick(r, "PauseAndWait", "Pause", "Stop", "WaitAndStop", "Restart", "TunePool", "TunePool", "WaitUntilFinished")
			}
		case "Paused":
			op.Kind = Pick(r, "Resume", "Resume", "Stop", "Restart", "PauseAndWait")
		case "Stopped":
			op.Kind = "Restart"
		}
		switch op.Kind {
		case "PauseAndWait", "Pause":
			state = "Paused"
		case "Stop", "WaitAndStop":
			state = "Stopped"
		case "Resume", "Restart":
			state = "Running"
		case "TunePool":
			op.Arg = Pick(r, 1, 2, 3, 5, 0)
		}
		c.Script = append(c.Script, op)
	}
	switch state {
	case "Paused":
		c.Script = append(c.Script, ctlOp{Kind: "Resume", Delay: Pick(r, 0, time.Microsecond)})
	case "Stopped":
		c.Script = append(c.Script, ctlOp{Kind: "Restart", Delay: Pick(r, 0, time.Microsecond)})
	}
	c.Purge = r.Chance(b.Purge)
	c.PurgeAt = Pick(r, 0, 0, time.Microsecond, 25*time.Microsecond)
	c.Waiters = r.Intn(b.Waiters + 1)
	c.Samplers = b.Samplers
	c.ErrReader = r.Bool()
	c.DblClose = r.Chance(30)
	c.Ctx = r.Chance(35)
	if b.Ctx > 0 {
		c.Ctx = r.Chance(b.Ctx)
	}
	return c
}

type waitRec struct {
	Job       int
	Kind      string
	Call, Ret int64
	Val       int
	Err       error
}

type statusSample struct {
	Call, Ret int64
	S         string
}

var statusRank = map[string]int{"Created": 0, "Queued": 1, "Processing": 2, "Finished": 3, "Closed": 4}

type richRun struct {
	cfg     richCfg
	e       *Env
	k       *Kit
	waits   []*waitRec
	wmu     sync.Mutex
	samples [][]statusSample // per job, per sampler goroutine flattened (one sampler per job)
	inFn    []atomic.Value   // status read inside the function
	second  []error          // result of a second Close
	secondC []bool
	counter []counterSample
	cmu     sync.Mutex
	batchH  []*Batch
	errsGot atomic.Int32
}

type counterSample struct {
	Call, Ret                int64
	QPending, WPending, Proc int
	Sub, Comp, Succ, Fail    uint64
}

func richOutcome(i, out int) Outcome {
	switch out {
	case 1:
		return Outcome{Err: fmt.Errorf("err-%d", i)}
	case 2:
		// panics with values of several types: all of them must become the job's error
		switch i % 5 {
		case 1:
			return Outcome{Panic: 4200 + i}
		case 2:
			return Outcome{Panic: fmt.Errorf("panic-error-%d", i)}
		case 3:
			return Outcome{Panic: struct{ Code int }{9000 + i}}
		case 4:
			return Outcome{Panic: []byte(fmt.Sprintf("panic-bytes-%d", i))}
		}
		return Outcome{Panic: fmt.Sprintf("panic-%d", i)}
	}
	return Outcome{Val: 1000 + i}
}

func epRich(c *RunCtx, cfg richCfg) *Result {
	e := NewEnv(c.Prop)
	n := len(cfg.Jobs)
	k := NewKit(e, n)
	rr := &richRun{cfg: cfg, e: e, k: k, samples: make([][]statusSample, n), inFn: make([]atomic.Value, n), second: make([]error, n), secondC: make([]bool, n)}
	for i, j := range cfg.Jobs {
		r := k.Recs[i]
		r.Work = j.Work
		r.Prio = j.Prio
		r.ID = fmt.Sprintf("j%d", i)
		r.Out = richOutcome(i, j.Out)
		r.InBatch = j.Batch >= 0
	}
	k.InFn = func(r *JobRec) {
		if r.hSet.Load() {
			rr.inFn[r.Idx].Store(r.H.Status())
		}
	}
	var s *Subject
	var q *BoundQ
	maxConc := cfg.Conc
	ended := false
	out := RunBubble(c.T, func(bid string) {
		var wcfg []any
		wcfg = append(wcfg, cfg.Conc)
		if cfg.Expiry > 0 {
			wcfg = append(wcfg, varmqExpiry(cfg.Expiry), varmqRatio(uint8(cfg.Ratio)))
		}
		if cfg.Ctx {
			ctx, cancel := context.WithCancel(context.Background())
			defer cancel()
			wcfg = append(wcfg, varmq.WithContext(ctx))
		}
		s = NewSubject(cfg.WK, k.Work, wcfg...)
		q = s.Bind(cfg.QK, nil)
		if cfg.ErrReader {
			ch := s.W.Errs()
			go func() {
				for range ch {
					rr.errsGot.Add(1)
				}
			}()
		}
		stopSamplers := make(chan struct{})
		var swg sync.WaitGroup // samplers
		var wwg sync.WaitGroup // waiters
		var pwg sync.WaitGroup // producers, canceller, purger, controller
		spawnWaiters := func(i int) {
			r := k.Recs[i]
			for w := 0; w < cfg.Waiters; w++ {
				kind := "Wait"
				if cfg.WK != WPlain && (w+i)%2 == 1 {
					kind = "Result"
				}
				wwg.Add(1)
				go func() {
					defer wwg.Done()
					wr := &waitRec{Job: i, Kind: kind}
					wr.Call = e.Ev(fmt.Sprintf("%s%d.call", kind, i))
					if kind == "Wait" {
						r.H.Wait()
						// once Wait has returned the handle reads Closed
						if st := r.H.Status(); st != "Closed" {
							e.Fail("C16", "not-closed-after-wait", st, fmt.Sprintf("job %d reads %s right after Wait returned", i, st))
						}
					} else {
						wr.Val, wr.Err, _ = ResultOf(r.H)
					}
					wr.Ret = e.Ev(fmt.Sprintf("%s%d.ret", kind, i))
					rr.wmu.Lock()
					rr.waits = append(rr.waits, wr)
					rr.wmu.Unlock()
				}()
			}
			if cfg.Samplers {
				swg.Add(1)
				go func() {
					defer swg.Done()
					for {
						// a burst of reads racing the library, then let fake time move
						for b := 0; b < 16; b++ {
							call := e.Tick()
							st := r.H.Status()
							ret := e.Tick()
							rr.samples[i] = append(rr.samples[i], statusSample{call, ret, st})
							if st == "Closed" || len(rr.samples[i]) > 600 {
								return
							}
							runtime.Gosched()
						}
						select {
						case <-stopSamplers:
							return
						default:
						}
						time.Sleep(3 * time.Microsecond)
					}
				}()
			}
		}
		cancelCh := make(chan int, n)
		rr.batchH = make([]*Batch, cfg.NBatch)
		for p := 0; p < cfg.Prods; p++ {
			pwg.Add(1)
			go func(p int) {
				defer pwg.Done()
				doneBatch := map[int]bool{}
				for i, j := range cfg.Jobs {
					if j.Prod != p {
						continue
					}
					if j.Batch >= 0 {
						if doneBatch[j.Batch] {
							continue
						}
						doneBatch[j.Batch] = true
						var items []varmq.Item[int]
						var idxs []int
						for x, jx := range cfg.Jobs {
							if jx.Batch == j.Batch {
								items = append(items, varmq.Item[int]{ID: k.Recs[x].ID, Data: x, Priority: jx.Prio})
								idxs = append(idxs, x)
							}
						}
						call := e.Ev(fmt.Sprintf("addall%d.call", j.Batch), idxs)
						for _, x := range idxs {
							k.Recs[x].Submitted = true
							k.Recs[x].AddCall = call
						}
						b := q.AddAll(items)
						ret := e.Ev(fmt.Sprintf("addall%d.ret", j.Batch))
						for _, x := range idxs {
							k.Recs[x].OK = true
							k.Recs[x].AddRet = ret
						}
						rr.batchH[j.Batch] = b
						if b.Drain != nil && (j.Batch%2 == 0) {
							b.Drain()
						}
						continue
					}
					k.Add(q, i)
					if k.Recs[i].H != nil {
						spawnWaiters(i)
					}
					switch j.Cancel {
					case 1:
						k.Close(i)
					case 2:
						cancelCh <- i
					case 3:
						// close the job in the window after its function returned (status Finished) and
						// before the worker closed it; afterwards the status must read Closed for good
						if r := k.Recs[i]; r.H != nil {
							pwg.Add(1)
							go func() {
								defer pwg.Done()
								for spin := 0; spin < 4000; spin++ {
									if st := r.H.Status(); st == "Finished" || st == "Closed" {
										break
									}
									if spin%64 == 63 {
										time.Sleep(time.Microsecond)
									} else {
										runtime.Gosched()
									}
								}
								k.Close(i)
								for x := 0; x < 3; x++ {
									if st := r.H.Status(); r.CloseErr == nil && st != "Closed" {
										e.Fail("C16", "backwards", "Closed>"+st, fmt.Sprintf("job %d: Close returned nil, then the status reads %s", i, st))
									}
									runtime.Gosched()
								}
							}()
						}
					}
				}
			}(p)
		}
		// canceller
		pwg.Add(1)
		go func() {
			defer pwg.Done()
			cnt := 0
			for _, j := range cfg.Jobs {
				if j.Cancel == 2 && j.Batch < 0 {
					cnt++
				}
			}
			for ; cnt > 0; cnt-- {
				i := <-cancelCh
				k.Close(i)
				if cfg.DblClose {
					if k.Recs[i].H != nil {
						rr.second[i] = k.Recs[i].H.Close()
						rr.secondC[i] = true
					}
				}
			}
		}()
		if cfg.Purge {
			pwg.Add(1)
			go func() {
				defer pwg.Done()
				if cfg.PurgeAt > 0 {
					time.Sleep(cfg.PurgeAt)
				}
				k.Call("Purge", 0, func() error { q.Base.Purge(); return nil })
			}()
		}
		// counters sampler
		if cfg.Samplers {
			swg.Add(1)
			go func() {
				defer swg.Done()
				for x := 0; x < 600; x++ {
					cs := counterSample{Call: e.Tick()}
					cs.QPending = q.Base.NumPending()
					cs.WPending = s.W.NumPending()
					cs.Proc = s.W.NumProcessing()
					m := s.W.Metrics()
					cs.Comp, cs.Succ, cs.Fail, cs.Sub = m.Completed(), m.Successful(), m.Failed(), m.Submitted()
					cs.Ret = e.Tick()
					rr.cmu.Lock()
					rr.counter = append(rr.counter, cs)
					rr.cmu.Unlock()
					select {
					case <-stopSamplers:
						return
					default:
					}
					if x%16 == 15 {
						time.Sleep(2 * time.Microsecond)
					} else {
						runtime.Gosched()
					}
				}
			}()
		}
		// controller
		pwg.Add(1)
		go func() {
			defer pwg.Done()
			for _, op := range cfg.Script {
				if op.Delay > 0 {
					time.Sleep(op.Delay)
				}
				arg := op.Arg
				k.Control(s.W, op.Kind, arg)
				if op.Kind == "TunePool" {
					eff := arg
					if eff < 1 {
						eff = numCPU()
					}
					if eff > maxConc {
						maxConc = eff
					}
				}
			}
		}()
		if !k.Await(pwg.Wait) {
			prop, what := stuckCall(k)
			hangFail(e, prop, what, bid)
			return
		}
		// the worker is Running again (script ends that way); let the virtual work elapse and reach
		// quiescence without any further API call
		var total time.Duration
		for _, j := range cfg.Jobs {
			total += j.Work
		}
		time.Sleep(2*total + 200*time.Microsecond)
		synctest.Wait()
		rr.checkAtRest(s, q, "rest")
		if !k.Await(wwg.Wait) {
			hangFail(e, "C05", "handle-waiter", bid)
			return
		}
		close(stopSamplers)
		if !k.Await(swg.Wait) {
			hangFail(e, "C16", "sampler", bid)
			return
		}
		// reads after everything finished: status stays Closed
		for _, r := range k.Recs {
			if r.H != nil && r.OK {
				if st := r.H.Status(); st != "Closed" {
					e.Fail("C16", "not-closed-at-rest", cfg.WK.String(), fmt.Sprintf("job %d reads %s at rest (runs=%d)", r.Idx, st, r.Runs.Load()))
				}
			}
		}
		if !k.Await(func() { k.Control(s.W, "Stop", 0) }) {
			hangFail(e, "C06", "Stop(final)", bid)
			return
		}
		synctest.Wait()
		ended = true
	})
	switch out.Kind {
	case "hang":
		prop, what := stuckCall(k)
		e.Fail(prop, "hang", "deadlock/"+what+"/"+blockedLibFrames(out.Stacks), "bubble deadlock, open calls ["+what+"]: "+out.Msg+"\n"+out.Stacks)
	case "leak":
		e.Stat("leaks", 1)
		if ended {
			e.Fail("C18", "leak-after-stop", blockedLibFrames(out.Stacks), out.Msg+"\n"+out.Stacks)
		}
	case "panic":
		e.Fail(c.Prop, "harness-panic", "", out.Msg+"\n"+out.Stacks)
	}
	if ended {
		rr.checkTrace(maxConc)
	}
	return e.Result(k.Sample(cfg.String()))
}

// stuckCall names the property owning a hang from the open control calls.
func stuckCall(k *Kit) (prop, what string) {
	open := k.OpenCalls()
	what = strings.Join(open, ",")
	for _, o := range open {
		switch o {
		case "WaitUntilFinished", "PauseAndWait", "Stop", "WaitAndStop", "Restart":
			return "C06", what
		}
	}
	if what == "" {
		what = "clients"
	}
	return "C03", what
}

func numCPU() int { return runtime.NumCPU() }

// checkAtRest: exact-at-rest clauses (C01 final, C03 progress, C17 counters).
func (rr *richRun) checkAtRest(s *Subject, q *BoundQ, where string) {
	e, k := rr.e, rr.k
	purged := false
	for _, c := range k.CtlCopy() {
		if c.Kind == "Purge" {
			purged = true
		}
	}
	accepted, exits, fails := 0, 0, 0
	for _, r := range k.Recs {
		if !r.Submitted {
			continue
		}
		runs := int(r.Runs.Load())
		if r.OK {
			accepted++
		}
		if r.Exit.Load() != 0 {
			exits++
			if r.Out.Err != nil || r.Out.Panic != nil {
				// plain workers only fail by panic
				if rr.cfg.WK != WPlain || r.Out.Panic != nil {
					fails++
				}
			}
		}
		if !r.OK {
			if runs != 0 {
				e.Fail("C01", "rejected-ran", "", fmt.Sprintf("job %d was rejected but ran", r.Idx))
			}
			continue
		}
		cancelled := r.CloseCalled && r.CloseErr == nil
		switch {
		case runs == 1 && r.Exit.Load() != 0:
			// executed
			if id, _ := r.SeenID.Load().(string); !idMatches(id, r) {
				e.Fail("C01", "wrong-id", "", fmt.Sprintf("job %d ran with id %q, submitted %q", r.Idx, id, r.ID))
			}
		case runs == 0 && cancelled:
		case runs == 0 && purged:
			// must have been closed by the purge, else it is a silent drop
			if r.H != nil && r.H.Status() != "Closed" {
				e.Fail("C10", "purge-drop", "", fmt.Sprintf("job %d: never ran, not pending, status %s after a purge: removed without being cancelled", r.Idx, r.H.Status()))
				e.Fail("C01", "lost", "purge", fmt.Sprintf("job %d accepted, never ran, status %s", r.Idx, r.H.Status()))
			}
		case runs == 0:
			e.Fail("C09", "pending-not-resumed", "rich/"+s.W.Status(), fmt.Sprintf("job %d accepted (status %s) has not run after the script's final Resume/Restart; the worker reports %s", r.Idx, statusOf(r), s.W.Status()))
			e.Fail("C03", "not-run-at-quiescence", "", fmt.Sprintf("job %d accepted (status %s) has not run although the worker is running and nothing can run any more; pending=%d processing=%d", r.Idx, statusOf(r), s.W.NumPending(), s.W.NumProcessing()))
			e.Fail("C01", "lost", "", fmt.Sprintf("job %d accepted, not cancelled, never ran (status %s)", r.Idx, statusOf(r)))
		default:
			e.Fail("C03", "stuck-in-function", "", fmt.Sprintf("job %d entered but did not exit", r.Idx))
		}
	}
	if p := q.Base.NumPending(); p != 0 {
		e.Fail("C17", "pending-at-rest", "queue", fmt.Sprintf("queue.NumPending=%d at rest, expected 0", p))
	}
	if p := s.W.NumPending(); p != 0 {
		e.Fail("C17", "pending-at-rest", "worker", fmt.Sprintf("worker.NumPending=%d at rest, expected 0", p))
	}
	if p := s.W.NumProcessing(); p != 0 {
		e.Fail("C17", "processing-at-rest", "", fmt.Sprintf("NumProcessing=%d at rest with nothing in flight", p))
	}
	m := s.W.Metrics()
	if int(m.Submitted()) != accepted {
		e.Fail("C17", "submitted", "", fmt.Sprintf("Submitted=%d, accepted submissions=%d", m.Submitted(), accepted))
	}
	if int(m.Completed()) != exits || m.Completed() != m.Successful()+m.Failed() {
		e.Fail("C17", "completed", "", fmt.Sprintf("Completed=%d Successful=%d Failed=%d, finished invocations=%d", m.Completed(), m.Successful(), m.Failed(), exits))
	}
	if int(m.Failed()) != fails {
		e.Fail("C17", "failed-count", "", fmt.Sprintf("Failed=%d, failing invocations=%d", m.Failed(), fails))
	}
	if s.W.Status() != "Running" {
		e.Fail("C14", "not-running-at-end", "", "script ended with the worker "+s.W.Status())
	}
	if idle := s.W.NumIdleWorkers(); idle < 1 {
		e.Fail("C18", "no-idle-worker", "", fmt.Sprintf("running worker at rest has %d idle workers", idle))
	}
	for bi, b := range rr.batchH {
		if b != nil && b.NumPending() != 0 {
			e.Fail("C08", "batch-pending-at-rest", "", fmt.Sprintf("batch %d NumPending=%d at rest", bi, b.NumPending()))
		}
	}
}

func idMatches(seen string, r *JobRec) bool {
	if r.InBatch {
		return seen == "g:"+r.ID
	}
	return seen == r.ID
}

// checkTrace: stamp-based oracles evaluated after everything was joined.
func (rr *richRun) checkTrace(maxConc int) {
	e, k, cfg := rr.e, rr.k, rr.cfg
	ctl := k.CtlCopy()
	var purgeCall int64
	for _, c := range ctl {
		if c.Kind == "Purge" {
			purgeCall = c.Call
		}
	}
	// C14: the lifecycle calls of the episode come from one controller, one after the other, and the
	// configured context (if any) is never cancelled: every return value is determined by the
	// reference machine
	{
		m := &fsmModel{state: "Running", hasCtx: cfg.Ctx}
		var done []string
		for _, c := range ctl {
			op := c.Kind
			switch op {
			case "Pause", "PauseAndWait", "Resume", "Stop", "WaitAndStop", "Restart":
			case "TunePool":
				op = "TuneNew"
			default:
				continue
			}
			if c.Ret == 0 {
				break
			}
			before := m.state
			want, got := m.step(op), errClass(c.Err)
			if op == "TuneNew" && want == "nil" && got == "same" {
				got = "nil"
			}
			done = append(done, fmt.Sprintf("%s=%s", c.Kind, got))
			if got != want {
				e.Fail("C14", "lifecycle-return", before+"/"+c.Kind+"/"+got, fmt.Sprintf("%s on a %s worker returned %q, the state machine says %q; calls so far: %s", c.Kind, before, got, want, strings.Join(done, " ")))
				break
			}
		}
	}
	// C02 (loose, sound): never more in flight than the largest limit configured in the episode
	if int(k.Peak.Load()) > maxConc {
		e.Fail("C02", "peak-above-limit", "", fmt.Sprintf("peak in-flight %d > largest limit %d", k.Peak.Load(), maxConc))
	}
	e.StatMax("inflight", float64(k.Peak.Load()))
	// C09: nothing starts between a barrier's return and the next Resume/Restart call
	for i, b := range ctl {
		if b.Ret == 0 {
			continue
		}
		switch b.Kind {
		case "PauseAndWait", "Stop", "WaitAndStop", "Pause":
		default:
			continue
		}
		// the state before the call decides whether the barrier applies (Pause on a stopped worker is a no-op)
		var next int64 = 1 << 62
		for _, c := range ctl[i+1:] {
			if c.Kind == "Resume" || c.Kind == "Restart" {
				next = c.Call
				break
			}
		}
		started := 0
		for _, r := range k.Recs {
			en := r.Enter.Load()
			if en > b.Ret && en < next {
				started++
				if b.Kind != "Pause" {
					e.Fail("C09", "started-after-barrier", b.Kind, fmt.Sprintf("job %d entered at %d, after %s returned at %d and before the next Resume/Restart call at %d", r.Idx, en, b.Kind, b.Ret, next))
				}
			}
			if r.AddRet != 0 && r.AddRet > b.Call && r.AddRet < next {
				e.ntFor("C09")
			}
		}
		if b.Kind == "Pause" && b.Err == nil && started > maxConc {
			e.Fail("C09", "too-many-after-pause", "", fmt.Sprintf("%d jobs started after Pause returned (limit %d)", started, maxConc))
		}
		if started > 0 {
			e.ntFor("C09")
		}
	}
	// C10 / C01: cancel semantics
	for _, r := range k.Recs {
		if !r.CloseCalled {
			continue
		}
		en, ex := r.Enter.Load(), r.Exit.Load()
		if (en > r.CloseCall && en < r.CloseRet) || (en != 0 && en < r.CloseCall && (ex == 0 || ex > r.CloseCall)) {
			e.ntFor("C10")
		}
		switch {
		case r.CloseErr == nil:
			if en != 0 && en > r.CloseRet {
				e.Fail("C10", "ran-after-cancel", "", fmt.Sprintf("job %d: Close returned nil at %d, the job entered at %d", r.Idx, r.CloseRet, en))
				e.Fail("C01", "cancelled-ran", "", fmt.Sprintf("job %d ran after a successful Close", r.Idx))
			} else if en != 0 && (ex == 0 || ex > r.CloseRet) {
				e.Fail("C10", "closed-while-executing", "", fmt.Sprintf("job %d: Close returned nil at %d while the function was executing (enter=%d exit=%d)", r.Idx, r.CloseRet, en, ex))
			}
		case isErr(r.CloseErr, varmq.ErrJobProcessing):
			// must really have been dispatched around the call: it ends up executed
			if r.Runs.Load() != 1 {
				e.Fail("C10", "processing-error-but-never-ran", "", fmt.Sprintf("job %d: Close returned ErrJobProcessing but the job never ran", r.Idx))
			}
		case isErr(r.CloseErr, varmq.ErrJobAlreadyClosed):
			// only legitimate if the job finished or was purged before the call returned
			if !(ex != 0 && ex < r.CloseRet) && !(purgeCall != 0 && purgeCall < r.CloseRet) {
				e.Fail("C10", "already-closed-without-cause", "", fmt.Sprintf("job %d: first Close returned ErrJobAlreadyClosed, but it neither finished (exit=%d) nor was purged before %d", r.Idx, ex, r.CloseRet))
			}
		default:
			e.Fail("C10", "unexpected-close-error", "", fmt.Sprintf("job %d: Close returned %v", r.Idx, r.CloseErr))
		}
		if rr.secondC[r.Idx] && r.CloseErr == nil {
			if !isErr(rr.second[r.Idx], varmq.ErrJobAlreadyClosed) {
				e.Fail("C10", "second-close", "", fmt.Sprintf("job %d: second Close after a successful one returned %v, want ErrJobAlreadyClosed", r.Idx, rr.second[r.Idx]))
			}
		}
	}
	// C05: handle calls return only after the function returned, or after a cancel/purge began
	rr.wmu.Lock()
	waits := rr.waits
	rr.wmu.Unlock()
	for _, w := range waits {
		r := k.Recs[w.Job]
		en, ex := r.Enter.Load(), r.Exit.Load()
		if w.Call < ex || (en != 0 && w.Call < en) {
			e.ntFor("C05")
		}
		if r.Runs.Load() >= 1 {
			if ex == 0 || ex > w.Ret {
				e.Fail("C05", "early-return", w.Kind, fmt.Sprintf("%s on job %d returned at %d before its function returned (enter=%d exit=%d)", w.Kind, w.Job, w.Ret, en, ex))
			}
			if w.Kind == "Result" {
				want := r.Out
				if want.Panic != nil {
					if w.Err == nil || !strings.Contains(w.Err.Error(), fmt.Sprint(want.Panic)) {
						e.Fail("C07", "wrong-outcome", "panic", fmt.Sprintf("job %d: got (%d,%v), function panicked with %v", w.Job, w.Val, w.Err, want.Panic))
					}
				} else if want.Err != nil {
					if w.Err == nil || w.Err.Error() != want.Err.Error() {
						e.Fail("C07", "wrong-outcome", "error", fmt.Sprintf("job %d: got (%d,%v), function returned error %v", w.Job, w.Val, w.Err, want.Err))
					}
				} else if w.Err != nil || (cfg.WK == WResult && w.Val != want.Val) {
					e.Fail("C07", "wrong-outcome", "value", fmt.Sprintf("job %d: got (%d,%v), function returned %d", w.Job, w.Val, w.Err, want.Val))
				}
			}
		} else {
			cancelStart := int64(0)
			if r.CloseCalled && r.CloseErr == nil {
				cancelStart = r.CloseCall
			}
			if purgeCall != 0 && (cancelStart == 0 || purgeCall < cancelStart) {
				cancelStart = purgeCall
			}
			if cancelStart == 0 || cancelStart > w.Ret {
				e.Fail("C05", "early-return", w.Kind+"/never-ran", fmt.Sprintf("%s on job %d returned at %d although the job neither ran nor was cancelled/purged before", w.Kind, w.Job, w.Ret))
			}
		}
	}
	// C16: status only moves forward
	for i, ss := range rr.samples {
		r := k.Recs[i]
		prev, prevS := -1, ""
		for _, s := range ss {
			rk, ok := statusRank[s.S]
			if !ok {
				e.Fail("C16", "unknown-status", "", fmt.Sprintf("job %d reads status %q", i, s.S))
				continue
			}
			if rk < prev {
				e.Fail("C16", "backwards", prevS+">"+s.S, fmt.Sprintf("job %d: status read %s after %s", i, s.S, prevS))
			}
			if rk != prev && prev >= 0 {
				e.ntFor("C16")
			}
			prev, prevS = rk, s.S
			// while the function runs the status is Processing
			en, ex := r.Enter.Load(), r.Exit.Load()
			if en != 0 && s.Call > en && ex != 0 && s.Ret < ex && s.S != "Processing" {
				e.Fail("C16", "not-processing-during-run", s.S, fmt.Sprintf("job %d reads %s while its function runs (enter=%d exit=%d sample=[%d,%d])", i, s.S, en, ex, s.Call, s.Ret))
			}
		}
		if v, _ := rr.inFn[i].Load().(string); v != "" && v != "Processing" {
			e.Fail("C16", "not-processing-during-run", "in-function/"+v, fmt.Sprintf("job %d reads %s from inside its own function", i, v))
		}
	}
	// C17: bounds on every sample
	rr.cmu.Lock()
	cs := rr.counter
	rr.cmu.Unlock()
	for _, c := range cs {
		acceptedBy := 0
		for _, r := range k.Recs {
			if r.Submitted && r.AddCall < c.Ret {
				acceptedBy++
			}
		}
		if c.QPending < 0 || c.WPending < 0 || c.Proc < 0 {
			e.Fail("C17", "negative", "", fmt.Sprintf("negative counter: queue pending %d worker pending %d processing %d", c.QPending, c.WPending, c.Proc))
		}
		if c.QPending > acceptedBy || c.WPending > acceptedBy {
			e.Fail("C17", "pending-above-accepted", "", fmt.Sprintf("pending %d/%d with only %d submissions begun", c.QPending, c.WPending, acceptedBy))
		}
		if c.Proc > maxConc {
			e.Fail("C17", "processing-above-limit", "", fmt.Sprintf("NumProcessing %d > largest limit %d", c.Proc, maxConc))
		}
		if c.Comp > c.Succ+c.Fail {
			// completed is bumped after successful/failed, read before them in the sample
			e.Fail("C17", "completed-above-outcomes", "", fmt.Sprintf("Completed %d > Successful %d + Failed %d", c.Comp, c.Succ, c.Fail))
		}
		if int(c.Sub) > acceptedBy {
			e.Fail("C17", "submitted-above-begun", "", fmt.Sprintf("Submitted %d > submissions begun %d", c.Sub, acceptedBy))
		}
	}
	if len(cs) > 0 {
		e.ntFor("C17")
	}
	e.ntFor("C01")
	e.ntFor("C03")
}

func isErr(err, target error) bool {
	return err != nil && target != nil && (err == target || strings.Contains(err.Error(), target.Error()))
}
