package vharness

// Three families that put several control calls in flight at once:
//   tune-storm (C02): overlapping TunePool calls; afterwards the effective limit, measured with gated
//                     jobs, is the value of one of the calls (the last one in some serial order);
//   bind-storm (C03, C17, C01, C15): queues are bound to a running, dispatching worker from several
//                     goroutines; every queue stays bound, everything accepted runs, counters agree;
//   cycles (C18, C14): Stop/Restart issued back to back, without ever letting the worker settle in
//                     between; after the last Stop no library goroutine is left.

import (
	"context"
	"fmt"
	"sort"
	"strings"
	"sync"
	"sync/atomic"
	"testing/synctest"
	"time"

	"github.com/goptics/varmq"
)

// ---------------------------------------------------------------- tune-storm

type tuneStormCfg struct {
	WK     WK
	Conc   int
	Expiry bool
	Warm   int     // jobs run before the storm (grows the pool)
	Tuners [][]int // per goroutine: the values passed to TunePool, in order
}

func (c tuneStormCfg) String() string {
	return fmt.Sprintf("tune-storm wk=%v conc=%d expiry=%v warm=%d tuners=%v", c.WK, c.Conc, c.Expiry, c.Warm, c.Tuners)
}

func drawTuneStorm(r *Rng) tuneStormCfg {
	c := tuneStormCfg{WK: Pick(r, WPlain, WErr, WResult), Conc: Pick(r, 1, 2, 3, 4, 6), Expiry: r.Chance(30)}
	c.Warm = r.Intn(c.Conc + 1)
	for t := 0; t < Pick(r, 2, 2, 3, 4); t++ {
		var seq []int
		for i := 0; i < Pick(r, 1, 1, 2); i++ {
			seq = append(seq, Pick(r, 1, 2, 3, 4, 5, 6, 7, 8))
		}
		c.Tuners = append(c.Tuners, seq)
	}
	return c
}

func epTuneStorm(c *RunCtx, cfg tuneStormCfg) *Result {
	e := NewEnv(c.Prop)
	maxv := cfg.Conc
	for _, t := range cfg.Tuners {
		for _, v := range t {
			maxv = max(maxv, v)
		}
	}
	probes := maxv + 4
	k := NewKit(e, cfg.Warm+probes)
	ended := false
	out := RunBubble(c.T, func(bid string) {
		wcfg := []any{cfg.Conc}
		if cfg.Expiry {
			wcfg = append(wcfg, varmqExpiry(50*time.Microsecond))
		}
		s := NewSubject(cfg.WK, k.Work, wcfg...)
		q := s.Bind(QFifo, nil)
		if cfg.Warm > 0 {
			g := make(chan struct{})
			for i := 0; i < cfg.Warm; i++ {
				k.Recs[i].Gate = g
				k.Add(q, i)
			}
			synctest.Wait()
			close(g)
			synctest.Wait()
		}
		// the storm
		type ret struct {
			v   int
			err error
		}
		rets := make([][]ret, len(cfg.Tuners))
		var wg sync.WaitGroup
		for ti, seq := range cfg.Tuners {
			wg.Add(1)
			go func() {
				defer wg.Done()
				for _, v := range seq {
					cr := k.Control(s.W, "TunePool", v)
					rets[ti] = append(rets[ti], ret{v, cr.Err})
				}
			}()
		}
		if !k.Await(wg.Wait) {
			hangFail(e, "C03", "TunePool", bid)
			return
		}
		synctest.Wait()
		// the last store in any serial order is the last successful call of one of the tuners
		allowed := map[int]bool{}
		var desc []string
		for ti, rs := range rets {
			last := -1
			for _, r := range rs {
				cls := errClass(r.err)
				desc = append(desc, fmt.Sprintf("t%d:TunePool(%d)=%s", ti, r.v, cls))
				switch cls {
				case "nil":
					last = r.v
				case "same":
				default:
					e.Fail("C14", "tunepool-error-on-running-worker", cls, fmt.Sprintf("%s: TunePool(%d) on a running worker returned %v", cfg, r.v, r.err))
				}
			}
			if last > 0 {
				allowed[last] = true
			}
		}
		if len(allowed) == 0 {
			allowed[cfg.Conc] = true
		}
		// measure the limit in force
		gate := make(chan struct{})
		for i := cfg.Warm; i < cfg.Warm+probes; i++ {
			k.Recs[i].Gate = gate
			k.Add(q, i)
		}
		synctest.Wait()
		running := k.InFlight()
		var al []int
		for v := range allowed {
			al = append(al, v)
		}
		sort.Ints(al)
		if !allowed[running] {
			rule := "limit-after-concurrent-tune"
			det := fmt.Sprintf("%s: after the calls [%s] all returned, %d gated jobs were submitted and %d of them execute at once; the limit in force has to be the value of the last successful call of one of the tuners %v", cfg, strings.Join(desc, " "), probes, running, al)
			if running > maxv {
				e.Fail("C02", "above-every-requested-limit", "tune-storm", det)
			} else {
				e.Fail("C02", rule, "tune-storm", det)
			}
		}
		if got, want := s.W.NumProcessing(), running; got != want {
			e.Fail("C17", "processing-at-q", "tune-storm", fmt.Sprintf("%s: NumProcessing=%d with %d functions executing", cfg, got, want))
		}
		if len(al) > 1 {
			e.Nontrivial()
		}
		e.Stat("tune_storm_limit_checks", 1)
		close(gate)
		synctest.Wait()
		time.Sleep(time.Microsecond)
		synctest.Wait()
		for _, r := range k.Recs {
			if r.Submitted && r.OK && r.Runs.Load() != 1 {
				e.Fail("C01", "not-exactly-once", "tune-storm", fmt.Sprintf("%s: job %d ran %d times", cfg, r.Idx, r.Runs.Load()))
				e.Fail("C03", "not-run-at-quiescence", "tune-storm", fmt.Sprintf("%s: job %d ran %d times; pending=%d processing=%d", cfg, r.Idx, r.Runs.Load(), s.W.NumPending(), s.W.NumProcessing()))
			}
		}
		if int(k.Peak.Load()) > maxv {
			e.Fail("C02", "peak-above-limit", "tune-storm", fmt.Sprintf("%s: peak in-flight %d > largest limit ever requested %d", cfg, k.Peak.Load(), maxv))
		}
		if !k.Await(func() { s.W.Stop() }) {
			hangFail(e, "C06", "Stop(final)", bid)
			return
		}
		synctest.Wait()
		if by, total, det := Census(bid); total != 0 {
			e.Fail("C18", "goroutines-after-stop", creators(by), fmt.Sprintf("%s: %d library goroutines remain after Stop: %v\n%s", cfg, total, by, strings.Join(det, "\n")))
		}
		ended = true
	})
	switch out.Kind {
	case "hang":
		e.Fail("C03", "hang", "tune-storm/"+blockedLibFrames(out.Stacks), cfg.String()+": "+out.Msg+"\n"+out.Stacks)
	case "leak":
		if ended {
			e.Fail("C18", "leak-after-stop", blockedLibFrames(out.Stacks), cfg.String()+": "+out.Msg)
		}
	case "panic":
		e.Fail(c.Prop, "harness-panic", "", cfg.String()+": "+out.Msg+"\n"+out.Stacks)
	}
	return e.Result(k.Sample(cfg.String()))
}

func tuneStormPrograms(c *RunCtx, nq, nt int) {
	for v := 0; v < c.Q(nq, nt); v++ {
		c.Program(fmt.Sprintf("tune-storm/%d", v), func(p *Prog) {
			cfg := drawTuneStorm(p.Rng)
			p.Explore(func(pl Plan) *Result { return epTuneStorm(c, cfg) },
				orRace(ExploreOpts{Base: 4, Noise: c.Q(20, 100), K: c.Q(4, 8), Funcs: []string{"TunePool", "PopBackIfAbove", "numMinIdleWorkers", "notifyToPullNextJobs", "processNextJob", "freePoolNode"}, Pairs: c.Q(30, 150), MaxCases: c.Q(200, 3000)}))
		})
	}
}

// ---------------------------------------------------------------- bind-storm

type bindStormCfg struct {
	Strategy int
	Conc     int
	First    int // jobs on the first queue before the storm starts
	Kinds    []QK
	Jobs     []int // per binder: jobs added to its queue right after binding
	Two      []bool
}

func (c bindStormCfg) String() string {
	return fmt.Sprintf("bind-storm strategy=%s conc=%d first=%d binders=%v jobs=%v two=%v", stratNames[c.Strategy], c.Conc, c.First, c.Kinds, c.Jobs, c.Two)
}

// bindStormDist: only distributed queues are bound by the storm (C13)
var bindStormDist bool

func drawBindStorm(r *Rng) bindStormCfg {
	c := bindStormCfg{Strategy: r.Intn(3), Conc: Pick(r, 1, 1, 2, 3), First: Pick(r, 2, 4, 8, 12)}
	for i := 0; i < Pick(r, 2, 2, 3, 4, 5); i++ {
		if bindStormDist {
			c.Kinds = append(c.Kinds, Pick(r, QDist, QDistPrio))
		} else {
			c.Kinds = append(c.Kinds, QK(r.Intn(6)))
		}
		c.Jobs = append(c.Jobs, Pick(r, 1, 1, 2, 3))
		c.Two = append(c.Two, r.Chance(25))
	}
	return c
}

func epBindStorm(c *RunCtx, cfg bindStormCfg) *Result {
	e := NewEnv(c.Prop)
	total := cfg.First
	for i, n := range cfg.Jobs {
		total += n
		if cfg.Two[i] {
			total += n
		}
	}
	k := NewKit(e, total)
	ended := false
	out := RunBubble(c.T, func(bid string) {
		strat := []varmq.Strategy{varmq.RoundRobin, varmq.MaxLen, varmq.MinLen}[cfg.Strategy]
		s := NewSubject(WPlain, k.Work, cfg.Conc, varmq.WithStrategy(strat))
		first := s.Bind(QFifo, nil)
		var mu sync.Mutex
		qs := []*BoundQ{first}
		next := cfg.First
		base := make([]int, len(cfg.Kinds))
		for i, n := range cfg.Jobs {
			base[i] = next
			next += n
			if cfg.Two[i] {
				next += n
			}
		}
		var wg sync.WaitGroup
		// the dispatcher is kept busy by ungated jobs of the first queue while the binders run
		wg.Add(1)
		go func() {
			defer wg.Done()
			for i := 0; i < cfg.First; i++ {
				k.Add(first, i)
			}
		}()
		for bi, kind := range cfg.Kinds {
			wg.Add(1)
			go func() {
				defer wg.Done()
				at := base[bi]
				for rep := 0; rep < 2; rep++ {
					if rep == 1 && !cfg.Two[bi] {
						break
					}
					var led *Ledger
					if kind.Adapter() {
						led = NewLedger(e, kind.Priority())
					}
					q := s.Bind(kind, led)
					mu.Lock()
					qs = append(qs, q)
					mu.Unlock()
					for j := 0; j < cfg.Jobs[bi]; j++ {
						k.Add(q, at)
						if !k.Recs[at].OK {
							e.Fail("C01", "rejected", "bind-storm", fmt.Sprintf("%s: Add to a freshly bound %s queue was refused", cfg, kind))
						}
						at++
					}
				}
			}()
		}
		if !k.Await(wg.Wait) {
			hangFail(e, "C03", "BindQueue/Add", bid)
			return
		}
		synctest.Wait()
		time.Sleep(time.Microsecond)
		synctest.Wait()
		sum := 0
		var lens []string
		for _, q := range qs {
			n := q.Base.NumPending()
			sum += n
			lens = append(lens, fmt.Sprintf("%s:%d", q.Kind, n))
		}
		wp := s.W.NumPending()
		notRun := 0
		for _, r := range k.Recs {
			if r.Submitted && r.OK && r.Runs.Load() == 0 {
				notRun++
			}
		}
		det := fmt.Sprintf("%s: at rest worker.NumPending=%d, its queues hold [%s] (sum %d), %d accepted jobs never ran, processing=%d status=%s", cfg, wp, strings.Join(lens, " "), sum, notRun, s.W.NumProcessing(), s.W.Status())
		if wp != sum {
			e.Fail("C17", "worker-pending-vs-queues", "bind-storm", det)
			e.Fail("C15", "queue-not-selected", "bind-storm", det)
		}
		if notRun > 0 {
			e.Fail("C13", "announced-not-processed", "bind-storm", det)
			e.Fail("C03", "not-run-at-quiescence", "bind-storm", det)
			e.Fail("C01", "lost", "bind-storm", det)
			e.Fail("C15", "starved", "bind-storm", det)
		}
		if sum != 0 {
			e.Fail("C17", "pending-at-rest", "bind-storm", det)
		}
		for _, r := range k.Recs {
			if r.Runs.Load() > 1 {
				e.Fail("C01", "ran-twice", "bind-storm", fmt.Sprintf("%s: job %d ran %d times", cfg, r.Idx, r.Runs.Load()))
			}
		}
		if int(k.Peak.Load()) > cfg.Conc {
			e.Fail("C02", "peak-above-limit", "bind-storm", fmt.Sprintf("%s: peak in-flight %d > limit %d", cfg, k.Peak.Load(), cfg.Conc))
		}
		e.Nontrivial()
		e.Stat("bind_storm_queues", float64(len(qs)))
		if !k.Await(func() { s.W.Stop() }) {
			hangFail(e, "C06", "Stop(final)", bid)
			return
		}
		synctest.Wait()
		ended = true
	})
	switch out.Kind {
	case "hang":
		e.Fail("C03", "hang", "bind-storm/"+blockedLibFrames(out.Stacks), cfg.String()+": "+out.Msg+"\n"+out.Stacks)
	case "leak":
		if ended {
			e.Fail("C18", "leak-after-stop", blockedLibFrames(out.Stacks), cfg.String()+": "+out.Msg)
		}
	case "panic":
		e.Fail(c.Prop, "harness-panic", "", cfg.String()+": "+out.Msg+"\n"+out.Stacks)
	}
	return e.Result(k.Sample(cfg.String()))
}

func bindStormPrograms(c *RunCtx, nq, nt int, dist ...bool) {
	for v := 0; v < c.Q(nq, nt); v++ {
		c.Program(fmt.Sprintf("bind-storm/%d", v), func(p *Prog) {
			bindStormDist = len(dist) > 0 && dist[0]
			cfg := drawBindStorm(p.Rng)
			bindStormDist = false
			p.Explore(func(pl Plan) *Result { return epBindStorm(c, cfg) },
				orRace(ExploreOpts{Base: 4, Noise: c.Q(20, 100), K: c.Q(3, 6), Funcs: []string{"Register", "GetMinLenItem", "GetMaxLenItem", "GetRoundRobinItem", "Manager", "queueManager.next", "processNextJob", "BindQueue", "WithQueue", "bindQueue", "Len", "Count"}, Pairs: c.Q(30, 150), MaxCases: c.Q(200, 3000)}))
		})
	}
}

// ---------------------------------------------------------------- cycles

type cyclesCfg struct {
	WK     WK
	Conc   int
	Ratio  int
	Expiry bool
	Warm   int
	Ops    []string // Stop, Restart, Job, Pause, Resume - issued back to back by one caller
}

func (c cyclesCfg) String() string {
	return fmt.Sprintf("cycles wk=%v conc=%d ratio=%d expiry=%v warm=%d ops=%s", c.WK, c.Conc, c.Ratio, c.Expiry, c.Warm, strings.Join(c.Ops, ","))
}

func drawCycles(r *Rng) cyclesCfg {
	c := cyclesCfg{WK: Pick(r, WPlain, WErr, WResult), Conc: Pick(r, 1, 2, 3, 4), Ratio: Pick(r, 1, 50, 100), Expiry: r.Chance(25)}
	c.Warm = r.Intn(c.Conc + 1)
	for i := 0; i < 3+r.Intn(8); i++ {
		c.Ops = append(c.Ops, Pick(r, "Stop", "Restart", "Restart", "Stop", "Job", "Pause", "Resume", "Settle"))
	}
	return c
}

func epCycles(c *RunCtx, cfg cyclesCfg) *Result {
	e := NewEnv(c.Prop)
	nj := cfg.Warm
	for _, op := range cfg.Ops {
		if op == "Job" {
			nj++
		}
	}
	k := NewKit(e, nj+1)
	ended := false
	out := RunBubble(c.T, func(bid string) {
		wcfg := []any{cfg.Conc, varmqRatio(uint8(cfg.Ratio))}
		if cfg.Expiry {
			wcfg = append(wcfg, varmqExpiry(30*time.Microsecond))
		}
		s := NewSubject(cfg.WK, k.Work, wcfg...)
		q := s.Bind(QFifo, nil)
		next := 0
		if cfg.Warm > 0 {
			g := make(chan struct{})
			for ; next < cfg.Warm; next++ {
				k.Recs[next].Gate = g
				k.Add(q, next)
			}
			synctest.Wait()
			close(g)
			synctest.Wait()
		}
		m := &fsmModel{state: "Running"}
		ok := k.Await(func() {
			for _, op := range cfg.Ops {
				switch op {
				case "Job":
					k.Add(q, next)
					next++
				case "Settle":
					synctest.Wait()
				default:
					before := m.state
					want := m.step(op)
					cr := k.Control(s.W, op, 0)
					if got := errClass(cr.Err); got != want {
						e.Fail("C14", "lifecycle-return", before+"/"+op+"/"+got, fmt.Sprintf("%s: %s on a %s worker returned %q, the state machine says %q", cfg, op, before, got, want))
					}
				}
			}
		})
		if !ok {
			prop, what := stuckCall(k)
			hangFail(e, prop, what, bid)
			return
		}
		// bring it to Running, let everything accepted run, then stop for good
		if m.state != "Running" {
			k.Control(s.W, "Restart", 0)
		}
		k.Add(q, next)
		next++
		synctest.Wait()
		time.Sleep(100 * time.Microsecond)
		synctest.Wait()
		if st := s.W.Status(); st != "Running" {
			e.Fail("C14", "restart-not-running", "cycles", fmt.Sprintf("%s: worker reports %s after the final Restart", cfg, st))
		}
		for _, r := range k.Recs[:next] {
			if r.OK && r.Runs.Load() != 1 {
				det := fmt.Sprintf("%s: job %d (accepted) ran %d times; pending=%d processing=%d status=%s", cfg, r.Idx, r.Runs.Load(), s.W.NumPending(), s.W.NumProcessing(), s.W.Status())
				e.Fail("C01", "not-exactly-once", "cycles", det)
				e.Fail("C09", "pending-not-resumed", "cycles", det)
				e.Fail("C03", "not-run-at-quiescence", "cycles", det)
			}
		}
		by, _, det := Census(bid)
		if nodes, idle := by[".(*worker).initPoolNode"], s.W.NumIdleWorkers(); nodes != idle {
			e.Fail("C18", "pool-census-mismatch", "cycles", fmt.Sprintf("%s: %d pool goroutines, %d idle workers at rest after the cycles\n%s", cfg, nodes, idle, strings.Join(det, "\n")))
		}
		if loops := by[".(*worker).goEventLoop"]; loops > 1 {
			e.Fail("C18", "event-loops", "cycles", fmt.Sprintf("%s: %d event loops at rest\n%s", cfg, loops, strings.Join(det, "\n")))
		}
		if !k.Await(func() { k.Control(s.W, "Stop", 0) }) {
			hangFail(e, "C06", "Stop(final)", bid)
			return
		}
		synctest.Wait()
		if by, total, det := Census(bid); total != 0 {
			e.Fail("C18", "goroutines-after-stop", creators(by), fmt.Sprintf("%s: %d library goroutines remain after the final Stop: %v\n%s", cfg, total, by, strings.Join(det, "\n")))
		}
		e.Nontrivial()
		e.Stat("cycles_ops", float64(len(cfg.Ops)))
		ended = true
	})
	switch out.Kind {
	case "hang":
		prop, what := stuckCall(k)
		e.Fail(prop, "hang", "cycles/"+what+"/"+blockedLibFrames(out.Stacks), cfg.String()+": "+out.Msg+"\n"+out.Stacks)
	case "leak":
		if ended {
			e.Fail("C18", "leak-after-stop", blockedLibFrames(out.Stacks), cfg.String()+": "+out.Msg)
		}
	case "panic":
		e.Fail(c.Prop, "harness-panic", "", cfg.String()+": "+out.Msg+"\n"+out.Stacks)
	}
	return e.Result(k.Sample(cfg.String()))
}

func cyclesPrograms(c *RunCtx, nq, nt int) {
	for v := 0; v < c.Q(nq, nt); v++ {
		c.Program(fmt.Sprintf("cycles/%d", v), func(p *Prog) {
			cfg := drawCycles(p.Rng)
			p.Explore(func(pl Plan) *Result { return epCycles(c, cfg) },
				orRace(ExploreOpts{Base: 4, Noise: c.Q(20, 100), K: c.Q(3, 6), Funcs: []string{"Node.Serve", "Node.Stop", "initPoolNode", "stopAndRemoveAllWorkers", "Restart", "Stop", "stop", "start", "startLocked", "closeChannels", "goEventLoop", "goRemoveIdleWorkers", "stopTickers", "Cache", "Put", "Get"}, Pairs: c.Q(30, 150), MaxCases: c.Q(200, 3000)}))
		})
	}
}

// raceOpts, when set (race regime), replaces the exploration options of the families above: the race
// build is an order of magnitude slower, and its verdict comes from the detector, not from the oracles.
var raceOpts *ExploreOpts

func orRace(o ExploreOpts) ExploreOpts {
	if raceOpts != nil {
		return *raceOpts
	}
	return o
}

// ---------------------------------------------------------------- context cancelled with jobs in flight

type ctxInflightCfg struct {
	WK   WK
	QK   QK
	Conc int
	N    int
}

func (c ctxInflightCfg) String() string {
	return fmt.Sprintf("ctx-inflight wk=%v qk=%v conc=%d n=%d", c.WK, c.QK, c.Conc, c.N)
}

// epCtxInflight: the configured context is cancelled while worker functions are executing and stay in
// their function. Until they return their jobs read Processing, their handles' waiters stay parked,
// NumProcessing counts them; afterwards the worker is Stopped and nothing of it is left.
func epCtxInflight(c *RunCtx, cfg ctxInflightCfg) *Result {
	e := NewEnv(c.Prop)
	k := NewKit(e, cfg.N)
	ended := false
	out := RunBubble(c.T, func(bid string) {
		ctx, cancel := context.WithCancel(context.Background())
		defer cancel()
		s := NewSubject(cfg.WK, k.Work, cfg.Conc, varmq.WithContext(ctx))
		q := s.Bind(cfg.QK, nil)
		gate := make(chan struct{})
		for i := 0; i < cfg.N; i++ {
			k.Recs[i].Gate = gate
			k.Add(q, i)
		}
		synctest.Wait()
		var inside []int
		for _, r := range k.Recs {
			if r.Enter.Load() != 0 && r.Exit.Load() == 0 {
				inside = append(inside, r.Idx)
			}
		}
		waitRet := make([]atomic.Int64, cfg.N)
		var wwg sync.WaitGroup
		for _, i := range inside {
			if h := k.Recs[i].H; h != nil {
				wwg.Add(1)
				go func() {
					defer wwg.Done()
					h.Wait()
					waitRet[i].Store(e.Ev(fmt.Sprintf("wait%d.ret", i)))
				}()
			}
		}
		synctest.Wait()
		e.Ev("ctx.cancel")
		cancel()
		synctest.Wait()
		time.Sleep(time.Microsecond)
		synctest.Wait()
		for _, i := range inside {
			r := k.Recs[i]
			if r.Exit.Load() != 0 {
				continue
			}
			if st := statusOf(r); r.H != nil && st != "Processing" {
				e.Fail("C16", "not-processing-during-run", "ctx-cancel/"+st, fmt.Sprintf("%s: job %d reads %s while its function is still executing (the worker's context was cancelled meanwhile)", cfg, i, st))
			}
			if st := r.RefStatus(); st != "" && st != "Processing" {
				e.Fail("C16", "not-processing-during-run", "ctx-cancel/ref/"+st, fmt.Sprintf("%s: job %d reads %s through the job value while its function is still executing", cfg, i, st))
			}
			if waitRet[i].Load() != 0 {
				e.Fail("C05", "returned-before-exit", "ctx-cancel", fmt.Sprintf("%s: Wait on job %d returned while its function is still executing (context cancelled)", cfg, i))
			}
		}
		if got := s.W.NumProcessing(); got != len(inside) {
			e.Fail("C17", "processing-at-q", "ctx-cancel", fmt.Sprintf("%s: NumProcessing=%d with %d functions executing after the context was cancelled", cfg, got, len(inside)))
		}
		if st := s.W.Status(); st == "Stopped" && len(inside) > 0 {
			e.Fail("C06", "executing-at-return", "ctx-stop", fmt.Sprintf("%s: the worker reports Stopped while %d functions are still executing", cfg, len(inside)))
			e.Fail("C14", "stopped-with-jobs-in-flight", "ctx", fmt.Sprintf("%s: the worker reports Stopped while %d functions are still executing", cfg, len(inside)))
		}
		close(gate)
		if !k.Await(wwg.Wait) {
			hangFail(e, "C05", "handle-waiter/ctx-cancel", bid)
			return
		}
		synctest.Wait()
		for _, i := range inside {
			r := k.Recs[i]
			if r.H != nil {
				if st := statusOf(r); st != "Closed" {
					e.Fail("C16", "not-closed-at-rest", "ctx-cancel", fmt.Sprintf("%s: job %d reads %s at rest", cfg, i, st))
				}
			}
			if r.Runs.Load() != 1 {
				e.Fail("C01", "not-exactly-once", "ctx-cancel", fmt.Sprintf("%s: job %d ran %d times", cfg, i, r.Runs.Load()))
			}
		}
		if st := s.W.Status(); st != "Stopped" {
			e.Fail("C14", "cancelled-context-not-stopped", st, fmt.Sprintf("%s: the context was cancelled and everything is at rest, the worker reports %s", cfg, st))
		}
		if p := s.W.NumProcessing(); p != 0 {
			e.Fail("C17", "processing-at-rest", "ctx-cancel", fmt.Sprintf("%s: NumProcessing=%d at rest", cfg, p))
		}
		if by, total, det := Census(bid); total != 0 {
			e.Fail("C18", "goroutines-after-stop", creators(by), fmt.Sprintf("%s: %d library goroutines remain after the context stopped the worker: %v\n%s", cfg, total, by, strings.Join(det, "\n")))
		}
		if len(inside) > 0 {
			e.Nontrivial()
		}
		ended = true
	})
	switch out.Kind {
	case "hang":
		e.Fail("C03", "hang", "ctx-inflight/"+blockedLibFrames(out.Stacks), cfg.String()+": "+out.Msg+"\n"+out.Stacks)
	case "leak":
		if ended {
			e.Fail("C18", "leak-after-stop", blockedLibFrames(out.Stacks), cfg.String()+": "+out.Msg)
		}
	case "panic":
		e.Fail(c.Prop, "harness-panic", "", cfg.String()+": "+out.Msg+"\n"+out.Stacks)
	}
	return e.Result(k.Sample(cfg.String()))
}

func ctxInflightPrograms(c *RunCtx, nq, nt int) {
	for v := 0; v < c.Q(nq, nt); v++ {
		c.Program(fmt.Sprintf("ctx-inflight/%d", v), func(p *Prog) {
			r := p.Rng
			cfg := ctxInflightCfg{WK: Pick(r, WPlain, WErr, WResult), QK: Pick(r, QFifo, QPrio), Conc: Pick(r, 1, 2, 3), N: 1 + r.Intn(5)}
			p.Explore(func(pl Plan) *Result { return epCtxInflight(c, cfg) },
				orRace(ExploreOpts{Base: 3, Noise: c.Q(10, 50), K: 2, Funcs: []string{"goListenToContext", "stop", "Stop", "initPoolNode", "freePoolNode", "job.Close", "markClosed", "WaitUntilFinished"}, Pairs: c.Q(10, 60), MaxCases: c.Q(100, 1500)}))
		})
	}
}

// ---------------------------------------------------------------- pool modes (C18)

type poolModeCfg struct {
	WK     WK
	Conc   int
	Ratio  int
	Expiry bool
	Mode   string // trim-paused, trim-tuned, pause-drain, stop-drain
}

func (c poolModeCfg) String() string {
	return fmt.Sprintf("pool-mode %s wk=%v conc=%d ratio=%d expiry=%v", c.Mode, c.WK, c.Conc, c.Ratio, c.Expiry)
}

// epPoolMode: directed pool situations.
//
//	trim-paused: the whole pool turns idle while the worker is paused with a backlog; after four expiry
//	             periods only the configured minimum is left;
//	trim-tuned:  the limit is lowered to 1 under a lasting backlog; the surplus idle workers are retired
//	             although the queue never runs empty;
//	pause-drain / stop-drain: every pool goroutine is busy when the worker is paused (stopped), the jobs
//	             finish meanwhile; after Resume (Restart) the running worker has an idle worker again.
func epPoolMode(c *RunCtx, cfg poolModeCfg) *Result {
	e := NewEnv(c.Prop)
	const period = time.Millisecond
	backlog := 3 * cfg.Conc
	k := NewKit(e, cfg.Conc+backlog+1)
	ended := false
	out := RunBubble(c.T, func(bid string) {
		wcfg := []any{cfg.Conc, varmqRatio(uint8(cfg.Ratio))}
		if cfg.Expiry {
			wcfg = append(wcfg, varmqExpiry(period))
		}
		s := NewSubject(cfg.WK, k.Work, wcfg...)
		q := s.Bind(QFifo, nil)
		g1 := make(chan struct{})
		for i := 0; i < cfg.Conc; i++ {
			k.Recs[i].Gate = g1
			k.Add(q, i)
		}
		synctest.Wait()
		if n := k.InFlight(); n != cfg.Conc {
			e.Fail("C03", "no-progress-at-quiescence", "pool-mode", fmt.Sprintf("%s: %d of %d jobs executing", cfg, n, cfg.Conc))
			close(g1)
			return
		}
		next := cfg.Conc
		census := func(where string) {
			by, _, det := Census(bid)
			nodes, idle := by[".(*worker).initPoolNode"], s.W.NumIdleWorkers()
			if nodes != idle+k.InFlight() {
				e.Fail("C18", "pool-census-mismatch", "pool-mode", fmt.Sprintf("%s: %s: %d pool goroutines, idle %d + executing %d\n%s", cfg, where, nodes, idle, k.InFlight(), strings.Join(det, "\n")))
			}
		}
		switch cfg.Mode {
		case "trim-paused":
			s.W.Pause()
			for i := 0; i < cfg.Conc+2; i++ {
				k.Add(q, next)
				next++
			}
			close(g1)
			synctest.Wait()
			time.Sleep(4*period + period/2)
			synctest.Wait()
			target := max(cfg.Conc*cfg.Ratio/100, 1)
			if idle := s.W.NumIdleWorkers(); idle < 1 || idle > target {
				e.Fail("C18", "idle-not-trimmed", "paused-backlog", fmt.Sprintf("%s: the pool of %d turned idle while the worker is paused with %d jobs pending; after 4 expiry periods NumIdleWorkers=%d, want 1..%d", cfg, cfg.Conc, cfg.Conc+2, idle, target))
			}
			census("after trimming while paused")
			s.W.Resume()
		case "trim-tuned":
			for i := 0; i < backlog; i++ {
				k.Recs[next].Work = period / 2
				k.Add(q, next)
				next++
			}
			k.Control(s.W, "TunePool", 1)
			close(g1)
			synctest.Wait()
			time.Sleep(5 * period)
			synctest.Wait()
			if p := s.W.NumPending(); p > 0 {
				// the backlog still lasts: one job executes, the surplus workers have been idle for periods
				if idle := s.W.NumIdleWorkers(); idle > 2 {
					e.Fail("C18", "idle-not-trimmed", "tuned-backlog", fmt.Sprintf("%s: limit lowered from %d to 1 with a backlog of %d; 5 expiry periods later %d jobs are still pending and NumIdleWorkers=%d, want at most the minimum (1) plus the one between two jobs", cfg, cfg.Conc, backlog, p, idle))
				}
				e.Stat("trim_under_backlog_checks", 1)
			}
		case "pause-drain", "stop-drain":
			if cfg.Mode == "pause-drain" {
				s.W.Pause()
			} else {
				go s.W.Stop() // waits for the jobs in flight
				synctest.Wait()
			}
			close(g1)
			synctest.Wait()
			if cfg.Mode == "pause-drain" {
				s.W.Resume()
			} else {
				s.W.Restart()
			}
			synctest.Wait()
			if st := s.W.Status(); st != "Running" {
				e.Fail("C14", "not-running-at-end", "pool-mode", fmt.Sprintf("%s: worker reports %s", cfg, st))
			}
			if idle := s.W.NumIdleWorkers(); idle < 1 {
				e.Fail("C18", "no-idle-worker", "pool-mode/"+cfg.Mode, fmt.Sprintf("%s: every pool goroutine was busy when the worker left the running state and finished meanwhile; back in Running, at rest, NumIdleWorkers=%d", cfg, idle))
			}
			census("after coming back")
		}
		// a probe and the rest run to completion
		k.Add(q, next)
		next++
		synctest.Wait()
		time.Sleep(time.Duration(backlog+2) * period)
		synctest.Wait()
		for _, r := range k.Recs[:next] {
			if r.OK && r.Runs.Load() != 1 {
				det := fmt.Sprintf("%s: job %d ran %d times (pending=%d processing=%d status=%s)", cfg, r.Idx, r.Runs.Load(), s.W.NumPending(), s.W.NumProcessing(), s.W.Status())
				e.Fail("C01", "not-exactly-once", "pool-mode", det)
				e.Fail("C03", "not-run-at-quiescence", "pool-mode", det)
				e.Fail("C18", "lost-job-under-tunepool", "pool-mode", det)
			}
		}
		if idle := s.W.NumIdleWorkers(); idle < 1 {
			e.Fail("C18", "no-idle-worker", "pool-mode/end", fmt.Sprintf("%s: running worker at rest has %d idle workers", cfg, idle))
		}
		census("end")
		e.Nontrivial()
		if !k.Await(func() { s.W.Stop() }) {
			hangFail(e, "C06", "Stop(final)", bid)
			return
		}
		synctest.Wait()
		if by, total, det := Census(bid); total != 0 {
			e.Fail("C18", "goroutines-after-stop", creators(by), fmt.Sprintf("%s: %d library goroutines remain after Stop: %v\n%s", cfg, total, by, strings.Join(det, "\n")))
		}
		ended = true
	})
	switch out.Kind {
	case "hang":
		e.Fail("C03", "hang", "pool-mode/"+blockedLibFrames(out.Stacks), cfg.String()+": "+out.Msg+"\n"+out.Stacks)
	case "leak":
		if ended {
			e.Fail("C18", "leak-after-stop", blockedLibFrames(out.Stacks), cfg.String()+": "+out.Msg)
		}
	case "panic":
		e.Fail(c.Prop, "harness-panic", "", cfg.String()+": "+out.Msg+"\n"+out.Stacks)
	}
	return e.Result(k.Sample(cfg.String()))
}

func poolModePrograms(c *RunCtx, nq, nt int) {
	modes := []string{"trim-paused", "trim-tuned", "pause-drain", "stop-drain"}
	for v := 0; v < c.Q(nq, nt); v++ {
		c.Program(fmt.Sprintf("pool-mode/%d", v), func(p *Prog) {
			r := p.Rng
			cfg := poolModeCfg{WK: Pick(r, WPlain, WErr, WResult), Conc: Pick(r, 1, 2, 3, 4, 8), Ratio: Pick(r, 1, 25, 50, 100), Mode: modes[v%len(modes)]}
			cfg.Expiry = cfg.Mode == "trim-paused" || cfg.Mode == "trim-tuned" || r.Chance(30)
			if cfg.Mode == "trim-tuned" {
				cfg.Conc = Pick(r, 3, 4, 8)
			}
			p.Explore(func(pl Plan) *Result { return epPoolMode(c, cfg) },
				orRace(ExploreOpts{Base: 2, K: 2, Funcs: []string{"freePoolNode", "goRemoveIdleWorkers", "TunePool", "Pause", "Resume", "stop", "Restart", "initPoolNode", "numMinIdleWorkers"}, Pairs: c.Q(6, 40), MaxCases: c.Q(40, 600)}))
		})
	}
}
