package vharness

// Checks that are decided on the rich family (plus their own dedicated families where noted).

import "fmt"

func init() {
	registry["C02"] = runC02
	registry["C04"] = runC04
	registry["C18"] = runC18
	registry["C01"] = runC01
	registry["C03"] = runC03
	registry["C05"] = runC05
	registry["C09"] = runC09
	registry["C10"] = runC10
	registry["C16"] = runC16
	registry["C17"] = runC17
}

func richPrograms(c *RunCtx, fam string, nq, nt int, b richBias, o ExploreOpts) {
	for v := 0; v < c.Q(nq, nt); v++ {
		c.Program(fmt.Sprintf("%s/%d", fam, v), func(p *Prog) {
			cfg := drawRich(p.Rng, b)
			p.Explore(func(pl Plan) *Result { return epRich(c, cfg) }, o)
		})
	}
}

func anchoredOr(c *RunCtx, funcs []string) []string {
	if c.Thorough() {
		return nil
	}
	return funcs
}

var dispatchFuncs = []string{"processNextJob", "sendToNextChannel", "freePoolNode", "initPoolNode", "goEventLoop", "goRemoveIdleWorkers", "notifyToPullNextJobs",
	"releaseWaiters", "sendError", "TunePool", "stopAndRemoveAllWorkers", "Restart", "Stop", "Pause", "Resume", "start", "closeChannels",
	"queue.Add", "Queue.Add", "AddAll", "Enqueue", "Dequeue", "Purge", "PopBack", "PushNode", "Remove", "Node.Serve", "Node.Send", "Node.Stop", "Close", "markClosed", "changeStatus"}

func runC01(c *RunCtx) {
	richPrograms(c, "rich", 48, 240, richBias{MaxJobs: 8, Cancel: 20, Purge: 15, Script: 4, Batches: 30, Waiters: 1, Expiry: 35},
		ExploreOpts{Base: 3, Noise: c.Q(20, 100), K: c.Q(2, 4), Funcs: anchoredOr(c, dispatchFuncs), Pairs: c.Q(20, 120), MaxCases: c.Q(200, 4000)})
	reaperPrograms(c, 32, 160)
	tuneRacePrograms(c, 24, 120)
	batchPrograms(c, 48, 240)
	bindStormPrograms(c, 16, 80)
	livePurgePrograms(c, 8, 32)
	closeRacePrograms(c, 12, 60)
	// one state-changing call races a few submissions and nothing happens afterwards: everything accepted still runs
	notifyPrograms(c, 40, 200)
	runC01Burst(c)
}

func runC03(c *RunCtx) {
	richPrograms(c, "rich", 48, 240, richBias{MaxJobs: 8, Cancel: 25, Purge: 10, Script: 3, Batches: 20, Waiters: 0, Outcomes: true, Expiry: 40},
		ExploreOpts{Base: 3, Noise: c.Q(20, 100), K: c.Q(2, 4), Funcs: anchoredOr(c, dispatchFuncs), Pairs: c.Q(20, 120), MaxCases: c.Q(200, 4000)})
	gatePrograms(c, "gate", 32, 160, gateBias{Adapters: true, MaxOps: 12, Expiry: 30, Tune: true, Life: true}, gateOpts(c))
	reaperPrograms(c, 32, 160)
	notifyPrograms(c, 40, 200)
	stormPrograms(c, 32, 160)
	batchPrograms(c, 64, 300)
	bindStormPrograms(c, 32, 160)
}

func runC05(c *RunCtx) {
	richPrograms(c, "rich", 96, 400, richBias{MaxJobs: 6, Cancel: 30, Purge: 20, Script: 2, Batches: 30, Waiters: 3, Outcomes: true, Expiry: 10},
		ExploreOpts{Base: 3, K: c.Q(2, 4), Funcs: anchoredOr(c, append([]string{"Wait", "Response", "Send", "Drain", "WgCounter"}, dispatchFuncs...)), Pairs: c.Q(20, 120), MaxCases: c.Q(200, 4000)})
	batchPrograms(c, 96, 600)
	purgeBurstPrograms(c, 16, 64)
	ctxInflightPrograms(c, 16, 80)
	closeRacePrograms(c, 24, 120, true)
}

func batchPrograms(c *RunCtx, nq, nt int) {
	for v := 0; v < c.Q(nq, nt); v++ {
		c.Program(fmt.Sprintf("batch/%d", v), func(p *Prog) {
			cfg := drawBatch(p.Rng, false)
			if v%4 == 1 {
				// batches one after the other, each submitted when the previous one has finished
				cfg.Gated, cfg.Purge, cfg.Reject, cfg.LateRead, cfg.Seq = false, 0, 0, false, true
				if v%8 == 1 {
					cfg.WK = WPlain
				}
				for len(cfg.Sizes) < 3 {
					sz := Pick(p.Rng, 2, 3, 7)
					cfg.Sizes = append(cfg.Sizes, sz)
					cfg.Out = append(cfg.Out, make([]int, sz))
				}
			}
			p.Explore(func(pl Plan) *Result { return epBatch(c, cfg) },
				ExploreOpts{Base: 4, Noise: c.Q(15, 80), K: c.Q(2, 4), Funcs: anchoredOr(c, batchFuncs), Pairs: c.Q(15, 100), MaxCases: c.Q(120, 2500)})
		})
	}
}

func runC09(c *RunCtx) {
	richPrograms(c, "rich", 96, 400, richBias{MaxJobs: 8, Cancel: 5, Purge: 0, Script: 6, Batches: 10, Waiters: 0, Expiry: 10, PausesOnly: true},
		ExploreOpts{Base: 3, Noise: c.Q(20, 100), K: c.Q(2, 4), Funcs: anchoredOr(c, dispatchFuncs), Pairs: c.Q(20, 120), MaxCases: c.Q(200, 4000)})
	runC09Extra(c)
}

func runC09Extra(c *RunCtx) {
	notifyPrograms(c, 40, 200)
	toggleBurstPrograms(c, 6, 30)
	// pending jobs keep their queue order across pause / stop windows (all queue kinds, equal and mixed priorities)
	gatePrograms(c, "gate", 32, 160, gateBias{Adapters: true, MaxOps: 16, Expiry: 0, Tune: false, Life: true}, gateOpts(c))
}

func runC10Extra(c *RunCtx) {
	purgeBurstPrograms(c, 16, 64)
	livePurgePrograms(c, 16, 64)
	closeRacePrograms(c, 24, 120)
}

func runC10(c *RunCtx) {
	richPrograms(c, "rich", 96, 400, richBias{MaxJobs: 8, Cancel: 60, Purge: 40, Script: 2, Batches: 20, Waiters: 1, Expiry: 10},
		ExploreOpts{Base: 3, Noise: c.Q(20, 100), K: c.Q(2, 4), Funcs: anchoredOr(c, dispatchFuncs), Pairs: c.Q(20, 120), MaxCases: c.Q(200, 4000)})
	runC10Extra(c)
}

func runC16(c *RunCtx) {
	richPrograms(c, "rich", 96, 400, richBias{MaxJobs: 6, Cancel: 25, Purge: 10, Script: 2, Batches: 0, Waiters: 3, Samplers: true, Expiry: 10},
		ExploreOpts{Base: 3, Noise: c.Q(20, 100), K: c.Q(2, 4), Funcs: anchoredOr(c, dispatchFuncs), Pairs: c.Q(20, 120), MaxCases: c.Q(200, 4000)})
	// batch items have no handle of their own: their status is read through the job value the worker function received
	batchPrograms(c, 48, 240)
	// the worker's context is cancelled while functions are executing
	ctxInflightPrograms(c, 24, 120)
}

func runC17(c *RunCtx) {
	richPrograms(c, "rich", 48, 240, richBias{MaxJobs: 8, Cancel: 20, Purge: 20, Script: 3, Batches: 30, Waiters: 0, Samplers: true, Outcomes: true, Expiry: 20},
		ExploreOpts{Base: 3, K: c.Q(2, 4), Funcs: anchoredOr(c, append([]string{"Len", "Manager"}, dispatchFuncs...)), Pairs: c.Q(20, 120), MaxCases: c.Q(200, 4000)})
	// cancel-heavy: a Close racing the dispatch of the same job must not cost a slot
	richPrograms(c, "rich-cancel", 32, 160, richBias{MaxJobs: 8, Cancel: 60, Purge: 10, Script: 2, Batches: 10, Waiters: 0, Samplers: true, Expiry: 10},
		ExploreOpts{Base: 3, Noise: c.Q(20, 100), K: c.Q(3, 5), Funcs: anchoredOr(c, []string{"processNextJob", "job.Close", "Close", "markClosed", "changeStatus", "IsClosed"}), Pairs: c.Q(20, 120), MaxCases: c.Q(200, 4000)})
	richPrograms(c, "restarts", 32, 160, richBias{MaxJobs: 8, Cancel: 0, Purge: 0, Script: 8, Batches: 0, Waiters: 0, Samplers: true, Expiry: 0, Conc: []int{1, 1, 2, 3}, RestartHeavy: true},
		ExploreOpts{Base: 3, K: c.Q(3, 6), Funcs: anchoredOr(c, []string{"goEventLoop", "processNextJob", "Restart", "Stop", "start", "closeChannels"}), Pairs: c.Q(30, 150), MaxCases: c.Q(200, 3000)})
	gatePrograms(c, "gate", 32, 160, gateBias{Adapters: true, MaxOps: 12, Expiry: 10, Tune: true, Life: true}, gateOpts(c))
	lenPrograms(c, 16, 64)
	bindStormPrograms(c, 32, 160)
	closeRacePrograms(c, 16, 80)
	batchPrograms(c, 48, 300)
	for v := 0; v < c.Q(32, 200); v++ {
		c.Program(fmt.Sprintf("ack/%d", v), func(p *Prog) {
			cfg := drawAck(p.Rng)
			p.Explore(func(pl Plan) *Result { return epAck(c, cfg) }, ExploreOpts{Base: 2, K: 1, Funcs: ledgerFuncs, MaxCases: c.Q(20, 200)})
		})
	}
}

func runC01Burst(c *RunCtx) {
	burstPrograms(c, 48, 160)
	purgeBurstPrograms(c, 8, 32)
	// adapter-backed queues with transient faults and bad entries: everything accepted still runs once
	for v := 0; v < c.Q(48, 300); v++ {
		c.Program(fmt.Sprintf("ack/%d", v), func(p *Prog) {
			cfg := drawAck(p.Rng)
			p.Explore(func(pl Plan) *Result { return epAck(c, cfg) }, ExploreOpts{Base: 2, K: 1, Funcs: ledgerFuncs, MaxCases: c.Q(20, 200)})
		})
	}
}

func gatePrograms(c *RunCtx, fam string, nq, nt int, b gateBias, o ExploreOpts) {
	for v := 0; v < c.Q(nq, nt); v++ {
		c.Program(fmt.Sprintf("%s/%d", fam, v), func(p *Prog) {
			cfg := drawGate(p.Rng, b)
			p.Explore(func(pl Plan) *Result { return epGate(c, cfg) }, o)
		})
	}
}

func gateOpts(c *RunCtx) ExploreOpts {
	return ExploreOpts{Base: 2, Noise: c.Q(10, 60), K: c.Q(2, 4), Funcs: anchoredOr(c, dispatchFuncs), Pairs: c.Q(15, 100), MaxCases: c.Q(150, 4000)}
}

func runC02(c *RunCtx) {
	richPrograms(c, "restarts", 32, 160, richBias{MaxJobs: 8, Cancel: 0, Purge: 0, Script: 8, Batches: 0, Waiters: 0, Samplers: false, Expiry: 0, Conc: []int{1, 1, 2, 3}, RestartHeavy: true},
		ExploreOpts{Base: 3, K: c.Q(3, 6), Funcs: anchoredOr(c, []string{"goEventLoop", "processNextJob", "Restart", "Stop", "start", "closeChannels"}), Pairs: c.Q(30, 150), MaxCases: c.Q(200, 3000)})
	gatePrograms(c, "gate", 64, 300, gateBias{Adapters: true, MaxOps: 14, Expiry: 20, Tune: true, Life: true}, gateOpts(c))
	tuneStormPrograms(c, 48, 240)
}

func runC04(c *RunCtx) {
	gatePrograms(c, "gate", 32, 160, gateBias{Adapters: true, MaxOps: 16, Expiry: 0, Tune: false, Life: true}, gateOpts(c))
	queuePrograms(c)
	burstPrograms(c, 24, 96)
}

func runC18(c *RunCtx) {
	gatePrograms(c, "gate", 48, 240, gateBias{Adapters: false, MaxOps: 14, Expiry: 60, Tune: true, Life: true}, gateOpts(c))
	reaperPrograms(c, 32, 160)
	tuneRacePrograms(c, 32, 160)
	cyclesPrograms(c, 48, 240)
	poolModePrograms(c, 32, 160)
}
