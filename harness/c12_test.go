package vharness

// C12 - persistent/distributed jobs keep ID and payload; bad entries are isolated.
// Producer and consumer are different workers on different adapter instances ("another
// process"): what the consumer's worker function receives is compared with the harness' own
// JSON round trip of the submitted value (DESIGN.md §6 C12).

import (
	"encoding/json"
	"fmt"
	"math"
	"reflect"
	"strings"
	"sync"
	"testing/synctest"
	"time"

	"github.com/goptics/varmq"
)

func init() { registry["C12"] = runC12 }

type pStruct struct {
	A int64          `json:"a"`
	B string         `json:"b,omitempty"`
	C []float64      `json:"c"`
	D map[string]any `json:"d"`
	E *pStruct       `json:"e"`
	F bool
	G any `json:"g"`
	h int
}

func genString(r *Rng) string {
	switch r.Intn(14) {
	case 0:
		return ""
	case 1:
		return "plain ascii"
	case 2:
		return "quote\" backslash\\ newline\n tab\t cr\r"
	case 3:
		return "nul\u0000byte"
	case 4:
		return "   <>&"
	case 5:
		return "emoji \U0001F600 \U0010FFFF"
	case 6:
		return "invalid utf8 \xff\xfe \xed\xa0\x80"
	case 7:
		return strings.Repeat("x", 1+r.Intn(100000))
	case 8:
		return "{\"id\":\"inner\",\"status\":\"Closed\",\"data\":1}"
	case 9:
		return "null"
	case 10:
		return "g:prefixed"
	case 11:
		return " leading and trailing "
	default:
		b := make([]byte, 1+r.Intn(24))
		for i := range b {
			b[i] = byte(r.Intn(256))
		}
		return string(b)
	}
}

func genInt(r *Rng) int64 {
	return Pick(r, 0, 1, -1, 1<<53, 1<<53+1, 1<<53-1, -(1<<53 + 1), math.MaxInt64, math.MinInt64, math.MaxInt32, int64(r.Next()))
}

func genFloat(r *Rng) float64 {
	return Pick(r, 0, math.Copysign(0, -1), 1.5, -1e-310, 5e-324, 1e308, math.MaxFloat64, 0.1, 1e21, 123456789.123456789, float64(r.Next())/3)
}

func genAny(r *Rng, depth int) any {
	k := r.Intn(9)
	if depth <= 0 && k >= 6 {
		k = r.Intn(6)
	}
	switch k {
	case 0:
		return nil
	case 1:
		return genString(r)
	case 2:
		return genFloat(r)
	case 3:
		return r.Bool()
	case 4:
		return genInt(r)
	case 5:
		return float64(genInt(r))
	case 6:
		n := r.Intn(4)
		s := make([]any, n)
		for i := range s {
			s[i] = genAny(r, depth-1)
		}
		return s
	case 7:
		n := r.Intn(4)
		m := map[string]any{}
		for i := 0; i < n; i++ {
			m[genString(r)] = genAny(r, depth-1)
		}
		return m
	default:
		return genStruct(r, depth-1)
	}
}

func genStruct(r *Rng, depth int) pStruct {
	p := pStruct{A: genInt(r), B: genString(r), F: r.Bool(), h: 7}
	for i := 0; i < r.Intn(3); i++ {
		p.C = append(p.C, genFloat(r))
	}
	if r.Bool() {
		p.D = map[string]any{"k": genAny(r, depth-1)}
	}
	if depth > 0 && r.Bool() {
		q := genStruct(r, depth-1)
		p.E = &q
	}
	p.G = genAny(r, depth-1)
	return p
}

type seenJob struct {
	ID   string
	Data any
}

// fidelity runs one producer/consumer pair for payload type T and compares.
// fidOpts: Retain = the producer's adapter keeps the slices it is handed; Par = number of goroutines
// that submit at the same time through the same queue object (ids are then unique and the consumer's
// jobs are matched by id instead of by position).
type fidOpts struct {
	Retain bool
	Par    int
}

var fidOpt fidOpts

func fidelity[T any](c *RunCtx, e *Env, variant int, vals []T, ids []string, prios []int) {
	prio := variant%2 == 1
	distributed := variant/2 == 1
	par := fidOpt.Par
	if par > 1 {
		ids = append([]string{}, ids...)
		for i := range ids {
			ids[i] = fmt.Sprintf("u%d-%s", i, ids[i])
		}
	}
	// addAll runs add(i) for every value, from one goroutine or from par goroutines at once
	addAll := func(add func(i int)) {
		if par <= 1 {
			for i := range vals {
				add(i)
			}
			return
		}
		var wg sync.WaitGroup
		for g := 0; g < par; g++ {
			wg.Add(1)
			go func() {
				defer wg.Done()
				for i := g; i < len(vals); i += par {
					add(i)
				}
			}()
		}
		wg.Wait()
	}
	// --- producer side
	prod := NewLedger(e, prio)
	prod.Retain = fidOpt.Retain
	accepted := make([]bool, len(vals))
	var prodSubmitted uint64
	if distributed {
		if prio {
			q := varmq.NewDistributedPriorityQueue[T](prod.PQ())
			addAll(func(i int) { accepted[i] = q.Add(vals[i], prios[i], varmq.WithJobId(ids[i])) })
		} else {
			q := varmq.NewDistributedQueue[T](prod.Q())
			addAll(func(i int) { accepted[i] = q.Add(vals[i], varmq.WithJobId(ids[i])) })
		}
	} else {
		w := varmq.NewWorker(func(j varmq.Job[T]) {}, 1)
		if prio {
			q := w.WithPersistentPriorityQueue(prod.PQ())
			w.Pause()
			addAll(func(i int) { accepted[i] = q.Add(vals[i], prios[i], varmq.WithJobId(ids[i])) })
		} else {
			q := w.WithPersistentQueue(prod.Q())
			w.Pause()
			addAll(func(i int) { accepted[i] = q.Add(vals[i], varmq.WithJobId(ids[i])) })
		}
		prodSubmitted = w.Metrics().Submitted()
		synctest.Wait()
		w.Stop() // the producer process ends with its entries still stored
	}
	// expected: the harness' own round trip
	type exp struct {
		id   string
		data T
		prio int
		seq  int
	}
	var want []exp
	nAcc := 0
	for i, v := range vals {
		b, err := json.Marshal(v)
		if err != nil {
			if accepted[i] {
				e.Fail("C12", "unencodable-accepted", fmt.Sprintf("%T", v), fmt.Sprintf("value %d (%T) cannot be encoded (%v) but Add reported success", i, v, err))
			}
			continue
		}
		if !accepted[i] {
			e.Fail("C12", "encodable-rejected", fmt.Sprintf("%T", v), fmt.Sprintf("value %d (%T) %.80s rejected", i, v, b))
			continue
		}
		var rt T
		if err := json.Unmarshal(b, &rt); err != nil {
			// the harness itself cannot decode it back into T: outside the statement
			e.Stat("undecodable_by_reference", 1)
			continue
		}
		// the ID travels through JSON as well
		wid := ids[i]
		if ib, err := json.Marshal(wid); err == nil {
			json.Unmarshal(ib, &wid)
		}
		want = append(want, exp{wid, rt, prios[i], nAcc})
		nAcc++
	}
	pend, _, _ := prod.State()
	if pend != nAcc+int(e.st["undecodable_by_reference"]) {
		e.Fail("C12", "store-count", "", fmt.Sprintf("producer adapter holds %d entries, accepted %d", pend, nAcc))
	}
	if !distributed && int(prodSubmitted) != pend {
		e.Fail("C12", "submitted-count", "", fmt.Sprintf("producer Submitted=%d, stored %d", prodSubmitted, pend))
	}
	// --- consumer side: another adapter instance holding the same bytes
	cuts := Cut{}
	for _, it := range prod.pending {
		cuts.Pending = append(cuts.Pending, it.Seq)
	}
	cons := prod.Recover(e, cuts)
	if distributed {
		cons.SubDelay = 20 * time.Microsecond // the consumer binds to a backlog and Subscribe takes a round trip
	}
	var mu sync.Mutex
	var seen []seenJob
	cw := varmq.NewWorker(func(j varmq.Job[T]) {
		mu.Lock()
		seen = append(seen, seenJob{j.ID(), j.Data()})
		mu.Unlock()
	}, 1)
	var errs []error
	bind := func() {
		if distributed {
			if prio {
				cw.WithDistributedPriorityQueue(cons.PQ())
			} else {
				cw.WithDistributedQueue(cons.Q())
			}
		} else {
			if prio {
				cw.WithPersistentPriorityQueue(cons.PQ())
			} else {
				cw.WithPersistentQueue(cons.Q())
			}
		}
	}
	bind()
	ech := cw.Errs()
	go func() {
		for er := range ech {
			mu.Lock()
			errs = append(errs, er)
			mu.Unlock()
		}
	}()
	synctest.Wait()
	if prio {
		// stable by (priority, arrival)
		for i := 1; i < len(want); i++ {
			for j := i; j > 0 && want[j].prio < want[j-1].prio; j-- {
				want[j], want[j-1] = want[j-1], want[j]
			}
		}
	}
	mu.Lock()
	defer mu.Unlock()
	nWant := len(want)
	if len(seen) != len(want) {
		e.Fail("C12", "count", "", fmt.Sprintf("consumer ran %d jobs, %d were accepted (errors on Errs(): %v)", len(seen), len(want), errs))
	}
	if par > 1 {
		// arrival order is the producers' business here: match by (unique) id
		byID := map[string]exp{}
		for _, w := range want {
			byID[w.id] = w
		}
		got := map[string]int{}
		for i, sj := range seen {
			w, ok := byID[sj.ID]
			got[sj.ID]++
			if !ok {
				e.Fail("C12", "id", "parallel", fmt.Sprintf("job %d: consumer saw id %q, nothing was submitted under it (%d producers on one queue)", i, sj.ID, par))
				continue
			}
			if !reflect.DeepEqual(sj.Data, any(w.data)) {
				e.Fail("C12", "payload", fmt.Sprintf("parallel/%T", w.data), fmt.Sprintf("job %d (id %q): consumer saw %#v, JSON round trip of the submitted value is %#v (%d producers on one queue)", i, sj.ID, sj.Data, w.data, par))
				e.Fail("C07", "submitted-data", fmt.Sprintf("adapter/%T", w.data), fmt.Sprintf("job %d (id %q): the worker function received %#v, submitted (JSON round trip) %#v", i, sj.ID, sj.Data, w.data))
			}
		}
		for id, n := range got {
			if n > 1 {
				e.Fail("C12", "duplicate", "parallel", fmt.Sprintf("id %q reached the consumer %d times", id, n))
			}
		}
		seen, want = nil, nil
	}
	for i := 0; i < len(seen) && i < len(want); i++ {
		if seen[i].ID != want[i].id {
			e.Fail("C07", "own-id", "adapter", fmt.Sprintf("job %d: the worker function saw id %q, submitted %q", i, seen[i].ID, want[i].id))
			e.Fail("C12", "id", "", fmt.Sprintf("job %d: consumer saw id %q, submitted %q", i, seen[i].ID, want[i].id))
		}
		if !reflect.DeepEqual(seen[i].Data, any(want[i].data)) && !bothNaNFree(seen[i].Data, want[i].data) {
			e.Fail("C12", "payload", fmt.Sprintf("%T", want[i].data), fmt.Sprintf("job %d: consumer saw %#v, JSON round trip of the submitted value is %#v", i, seen[i].Data, want[i].data))
			e.Fail("C07", "submitted-data", fmt.Sprintf("adapter/%T", want[i].data), fmt.Sprintf("job %d: the worker function received %#v, submitted (JSON round trip) %#v", i, seen[i].Data, want[i].data))
		}
	}
	if len(errs) != 0 {
		e.Fail("C12", "spurious-error", "", fmt.Sprintf("valid entries produced errors: %v", errs))
	}
	if p, u, a := cons.State(); p != 0 || u != 0 || a != nWant {
		e.Fail("C11", "ledger-not-drained", "fidelity", fmt.Sprintf("consumer adapter: pending=%d unacked=%d acked=%d, want 0/0/%d", p, u, a, nWant))
	}
	e.Stat("values_checked", float64(nWant))
	cw.Stop()
	synctest.Wait()
}

func bothNaNFree(a, b any) bool { return false }

func epFidelity(c *RunCtx, typ, variant int, seed uint64) *Result {
	e := NewEnv(c.Prop)
	r := &Rng{s: seed | 1}
	n := 24
	ids := make([]string, n)
	prios := make([]int, n)
	for i := range ids {
		ids[i] = genString(r)
		if len(ids[i]) > 300 {
			ids[i] = ids[i][:300]
		}
		prios[i] = Pick(r, 0, 0, 1, -1, 3, math.MaxInt64, math.MinInt64)
	}
	fidOpt = fidOpts{Retain: seed&2 != 0}
	if seed&12 == 12 {
		fidOpt.Par = 2 + int(seed>>4)%3
	}
	defer func() { fidOpt = fidOpts{} }()
	desc := fmt.Sprintf("fidelity type=%d variant=%d retain=%v producers=%d", typ, variant, fidOpt.Retain, max(fidOpt.Par, 1))
	out := RunBubble(c.T, func(bid string) {
		switch typ {
		case 8:
			// typed slices: nil, empty but not nil, short
			vals := make([][]int64, n)
			for i := range vals {
				switch i % 4 {
				case 0:
					vals[i] = []int64{}
				case 1:
					vals[i] = nil
				default:
					for j := 0; j < 1+r.Intn(4); j++ {
						vals[i] = append(vals[i], genInt(r))
					}
				}
			}
			fidelity(c, e, variant, vals, ids, prios)
		case 9:
			// typed maps and slices of structs: nil, empty but not nil, short
			vals := make([]map[string][]pStruct, n)
			for i := range vals {
				switch i % 4 {
				case 0:
					vals[i] = map[string][]pStruct{}
				case 1:
					vals[i] = nil
				case 2:
					vals[i] = map[string][]pStruct{genString(r): {}, "nil": nil}
				default:
					vals[i] = map[string][]pStruct{"a": {genStruct(r, 1)}}
				}
			}
			fidelity(c, e, variant, vals, ids, prios)
		case 0:
			vals := make([]string, n)
			for i := range vals {
				vals[i] = genString(r)
			}
			fidelity(c, e, variant, vals, ids, prios)
		case 1:
			vals := make([]int64, n)
			for i := range vals {
				vals[i] = genInt(r)
			}
			fidelity(c, e, variant, vals, ids, prios)
		case 2:
			vals := make([]float64, n)
			for i := range vals {
				vals[i] = genFloat(r)
				if i%7 == 3 {
					vals[i] = Pick(r, math.NaN(), math.Inf(1), math.Inf(-1))
				}
			}
			fidelity(c, e, variant, vals, ids, prios)
		case 3:
			vals := make([]pStruct, n)
			for i := range vals {
				vals[i] = genStruct(r, 2)
			}
			fidelity(c, e, variant, vals, ids, prios)
		case 4:
			vals := make([]map[string]any, n)
			for i := range vals {
				if i%7 == 1 {
					vals[i] = map[string]any{}
				} else if i%5 != 0 {
					vals[i] = map[string]any{genString(r): genAny(r, 2), "n": genInt(r)}
				}
				if i%9 == 4 {
					vals[i] = map[string]any{"bad": math.NaN()}
				}
			}
			fidelity(c, e, variant, vals, ids, prios)
		case 5:
			vals := make([][]any, n)
			for i := range vals {
				for j := 0; j < r.Intn(4); j++ {
					vals[i] = append(vals[i], genAny(r, 2))
				}
				if i%8 == 5 {
					vals[i] = []any{func() {}}
				}
				if i%8 == 6 {
					vals[i] = []any{}
				}
			}
			fidelity(c, e, variant, vals, ids, prios)
		case 6:
			vals := make([]any, n)
			for i := range vals {
				vals[i] = genAny(r, 3)
				switch i % 11 {
				case 3:
					vals[i] = make(chan int)
				case 7:
					cyc := map[string]any{}
					cyc["self"] = cyc
					vals[i] = cyc
				}
			}
			fidelity(c, e, variant, vals, ids, prios)
		case 7:
			vals := make([]*pStruct, n)
			for i := range vals {
				if i%4 != 0 {
					p := genStruct(r, 1)
					vals[i] = &p
				}
			}
			fidelity(c, e, variant, vals, ids, prios)
		}
	})
	if out.Kind == "panic" || out.Kind == "hang" {
		e.Fail("C12", out.Kind, blockedLibFrames(out.Stacks), desc+": "+out.Msg+"\n"+out.Stacks)
	}
	e.Nontrivial()
	r2 := e.Result(map[string]any{"program": desc, "ids": ids[:3]})
	r2.Sig = fmt.Sprintf("%s-%x", desc, seed)
	return r2
}

// --- bad entries ------------------------------------------------------------------------

type badCfg struct {
	Prio  bool
	Dist  bool
	Slots []int // 0 valid, 1.. kinds of bad entries
	Paced bool
}

var badKinds = []string{"valid", "truncated", "not-json", "wrong-id-type", "unknown-status", "foreign-payload", "non-bytes-int", "non-bytes-string", "empty", "json-array", "trailing-garbage", "two-envelopes-glued"}

func (b badCfg) String() string {
	var s []string
	for _, k := range b.Slots {
		s = append(s, badKinds[k])
	}
	return fmt.Sprintf("bad-entries prio=%v dist=%v paced=%v [%s]", b.Prio, b.Dist, b.Paced, strings.Join(s, " "))
}

func badEntry(kind, i int) any {
	switch kind {
	case 0:
		return []byte(fmt.Sprintf(`{"id":"v%d","status":"Created","data":%d}`, i, i))
	case 1:
		return []byte(fmt.Sprintf(`{"id":"v%d","status":"Created","da`, i))
	case 2:
		return []byte("\x00\x01 not json at all")
	case 3:
		return []byte(`{"id":5,"status":"Created","data":1}`)
	case 4:
		return []byte(`{"id":"x","status":"Exploded","data":1}`)
	case 5:
		return []byte(`{"id":"x","status":"Created","data":"a string where an int is expected"}`)
	case 6:
		return 12345
	case 7:
		return "a string item"
	case 8:
		return []byte{}
	case 9:
		return []byte(`[1,2,3]`)
	case 10:
		// a complete envelope followed by more bytes is not a valid entry
		return []byte(fmt.Sprintf(`{"id":"ghost%d","status":"Created","data":%d} trailing`, i, 500000+i))
	default:
		return []byte(fmt.Sprintf(`{"id":"ghostA%d","status":"Created","data":%d}{"id":"ghostB%d","status":"Created","data":%d}`, i, 600000+i, i, 700000+i))
	}
}

func epBadEntries(c *RunCtx, cfg badCfg) *Result {
	e := NewEnv(c.Prop)
	out := RunBubble(c.T, func(bid string) {
		led := NewLedger(e, cfg.Prio)
		var mu sync.Mutex
		var ran []int
		var errs []error
		w := varmq.NewWorker(func(j varmq.Job[int]) {
			mu.Lock()
			ran = append(ran, j.Data())
			mu.Unlock()
		}, 1)
		bind := func() {
			switch {
			case cfg.Dist && cfg.Prio:
				w.WithDistributedPriorityQueue(led.PQ())
			case cfg.Dist:
				w.WithDistributedQueue(led.Q())
			case cfg.Prio:
				w.WithPersistentPriorityQueue(led.PQ())
			default:
				w.WithPersistentQueue(led.Q())
			}
		}
		nbad, nvalid := 0, 0
		var wantRan []int
		for i, k := range cfg.Slots {
			if k == 0 {
				nvalid++
				wantRan = append(wantRan, i)
			} else {
				nbad++
			}
		}
		if cfg.Paced && cfg.Dist {
			// entries arrive one at a time through the adapter's notifications, reader attached
			bind()
			ech := w.Errs()
			go func() {
				for er := range ech {
					mu.Lock()
					errs = append(errs, er)
					mu.Unlock()
				}
			}()
			for i, k := range cfg.Slots {
				if cfg.Prio {
					led.PQ().Enqueue(badEntry(k, i), 0)
				} else {
					led.Q().Enqueue(badEntry(k, i))
				}
				synctest.Wait()
				mu.Lock()
				ne := len(errs)
				mu.Unlock()
				seenBad := 0
				for _, kk := range cfg.Slots[:i+1] {
					if kk != 0 {
						seenBad++
					}
				}
				if ne != seenBad {
					e.Fail("C12", "bad-entry-not-reported", badKinds[k], fmt.Sprintf("%s: after entry %d (%s) %d errors were received on Errs(), %d bad entries so far", cfg, i, badKinds[k], ne, seenBad))
				}
			}
		} else {
			for i, k := range cfg.Slots {
				led.Preload(badEntry(k, i), 0)
			}
			bind()
			ech := w.Errs()
			go func() {
				for er := range ech {
					mu.Lock()
					errs = append(errs, er)
					mu.Unlock()
				}
			}()
		}
		synctest.Wait()
		mu.Lock()
		if fmt.Sprint(ran) != fmt.Sprint(wantRan) {
			e.Fail("C12", "valid-jobs-around-bad-entry", "", fmt.Sprintf("%s: executed %v, valid entries in order are %v (errors %v)", cfg, ran, wantRan, errs))
		}
		if nbad > 0 && len(errs) == 0 {
			e.Fail("C12", "bad-entry-not-reported", "none", fmt.Sprintf("%s: %d bad entries, no error on Errs()", cfg, nbad))
		}
		mu.Unlock()
		p, u, a := led.State()
		if p != 0 {
			e.Fail("C12", "blocked-behind-bad-entry", "", fmt.Sprintf("%s: %d entries still pending at quiescence", cfg, p))
		}
		if a != nvalid {
			e.Fail("C11", "ack-count", "bad-entries", fmt.Sprintf("%s: %d acknowledgements, %d valid entries (bad ones must not be acknowledged)", cfg, a, nvalid))
		}
		if u != nbad {
			e.Fail("C11", "unacked-count", "bad-entries", fmt.Sprintf("%s: %d deliveries left unacknowledged, %d bad entries", cfg, u, nbad))
		}
		for _, pr := range led.ProblemsCopy() {
			e.Fail("C11", "bad-ack", "", pr)
		}
		if w.Status() != "Running" {
			e.Fail("C12", "worker-stopped-by-bad-entry", "", cfg.String())
		}
		w.Stop()
		synctest.Wait()
	})
	if out.Kind == "panic" || out.Kind == "hang" {
		e.Fail("C12", out.Kind, "bad-entries/"+blockedLibFrames(out.Stacks), cfg.String()+": "+out.Msg+"\n"+out.Stacks)
	}
	e.Nontrivial()
	r := e.Result(map[string]any{"program": cfg.String()})
	r.Sig = cfg.String()
	return r
}

func runC12(c *RunCtx) {
	for typ := 0; typ < 10; typ++ {
		for variant := 0; variant < 4; variant++ {
			for v := 0; v < c.Q(40, 400); v++ {
				typ, variant, v := typ, variant, v
				c.Program(fmt.Sprintf("fidelity/t%d/v%d/%d", typ, variant, v), func(p *Prog) {
					seed := p.Rng.Next()
					p.Explore(func(pl Plan) *Result { return epFidelity(c, typ, variant, seed) }, ExploreOpts{Base: 1})
				})
			}
		}
	}
	// bad entries at every position of short valid sequences, all kinds
	for v := 0; v < c.Q(240, 2400); v++ {
		c.Program(fmt.Sprintf("bad/%d", v), func(p *Prog) {
			r := p.Rng
			cfg := badCfg{Prio: r.Bool(), Dist: r.Bool(), Paced: r.Bool()}
			n := 1 + r.Intn(7)
			for i := 0; i < n; i++ {
				if r.Chance(35) {
					cfg.Slots = append(cfg.Slots, 1+r.Intn(len(badKinds)-1))
				} else {
					cfg.Slots = append(cfg.Slots, 0)
				}
			}
			// systematic: one bad kind at each position
			if v < (len(badKinds)-1)*5 {
				kind := 1 + v%(len(badKinds)-1)
				pos := v / (len(badKinds) - 1)
				cfg.Slots = []int{0, 0, 0, 0, 0}
				cfg.Slots[pos] = kind
			}
			o := ExploreOpts{Base: 1}
			if v%10 == 0 {
				o = ExploreOpts{Base: 1, K: 2, Funcs: []string{"processNextJob", "parseToJob", "goEventLoop", "sendError"}, MaxCases: 40}
			}
			p.Explore(func(pl Plan) *Result { return epBadEntries(c, cfg) }, o)
		})
	}
}
