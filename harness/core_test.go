package vharness

// Harness core: deterministic PRNG, run context (sharding, BEGIN/END protocol, replay),
// per-episode environment (logical clock, event log, violations), bubble runner with
// hang/leak classification, stall-plan exploration (DESIGN.md §4, §5).

import (
	"encoding/json"
	"fmt"
	"hash/fnv"
	"os"
	"runtime"
	"sort"
	"strconv"
	"strings"
	"sync"
	"sync/atomic"
	"testing"
	"testing/synctest"

	"github.com/goptics/varmq/vhook"
)

// ---------------------------------------------------------------------------------------
// PRNG (splitmix64): every program is a pure function of (seed, property, family, index)

type Rng struct{ s uint64 }

func NewRng(parts ...any) *Rng {
	h := fnv.New64a()
	for _, p := range parts {
		fmt.Fprintf(h, "%v|", p)
	}
	return &Rng{s: h.Sum64() | 1}
}

func (r *Rng) Next() uint64 {
	r.s += 0x9e3779b97f4a7c15
	z := r.s
	z = (z ^ (z >> 30)) * 0xbf58476d1ce4e5b9
	z = (z ^ (z >> 27)) * 0x94d049bb133111eb
	return z ^ (z >> 31)
}

func (r *Rng) Intn(n int) int {
	if n <= 1 {
		return 0
	}
	return int(r.Next() % uint64(n))
}

func (r *Rng) Bool() bool        { return r.Next()&1 == 1 }
func (r *Rng) Chance(p int) bool { return r.Intn(100) < p }

func Pick[T any](r *Rng, xs ...T) T { return xs[r.Intn(len(xs))] }

// ---------------------------------------------------------------------------------------
// results

type Violation struct {
	Rule   string `json:"rule"`
	FP     string `json:"fp"`
	Detail string `json:"detail"`
}

type Result struct {
	V      []Violation        `json:"v,omitempty"`
	Sig    string             `json:"sig,omitempty"`
	NT     bool               `json:"nt,omitempty"`
	St     map[string]float64 `json:"st,omitempty"`
	Sample any                `json:"sample,omitempty"`
	Log    []string           `json:"log,omitempty"`
	Inc    string             `json:"inc,omitempty"`
}

// Plan is a stall plan: at most 3 (site, n-th hit, microseconds) points.
type Plan struct {
	Site []uint32 `json:"site,omitempty"`
	Nth  []uint32 `json:"nth,omitempty"`
	Us   []uint32 `json:"us,omitempty"`
	Rep  int      `json:"rep,omitempty"` // repetition index for unplanned runs
	// Noise != 0: no stall plan; instead every site yields with ~4 % and sleeps up to 60 us with ~0.3 %
	// probability, from a PRNG seeded with this value
	Noise uint64 `json:"noise,omitempty"`
}

func (p Plan) Empty() bool { return len(p.Site) == 0 }

type Site struct {
	ID   int    `json:"id"`
	File string `json:"file"`
	Line int    `json:"line"`
	Func string `json:"func"`
}

// ---------------------------------------------------------------------------------------
// run context

type RunCtx struct {
	T        *testing.T
	Prop     string
	Tier     string
	Seed     int64
	Shard    int
	NShards  int
	out      *os.File
	progIdx  int
	skipProg int
	skipCase int
	only     string
	Sites    []Site
	replay   *replaySpec
	replayN  int
	samples  int
}

type replaySpec struct {
	Prog string          `json:"prog"`
	Case int             `json:"case"`
	Spec json.RawMessage `json:"spec"`
}

func (c *RunCtx) Thorough() bool { return c.Tier == "thorough" }

// Q returns q for the quick tier and t for the thorough tier.
func (c *RunCtx) Q(q, t int) int {
	if c.Thorough() {
		return t
	}
	return q
}

type Prog struct {
	c       *RunCtx
	name    string
	caseIdx int
	Rng     *Rng
	// violating counts the cases of this program that reported a violation; a program that has shown
	// its violation many times over is not explored further (only ever shortens runs on a broken tree)
	violating int
}

// Program runs f if this shard owns the program (round-robin over the program index).
func (c *RunCtx) Program(name string, f func(p *Prog)) {
	idx := c.progIdx
	c.progIdx++
	full := fmt.Sprintf("%d#%s", idx, name)
	if c.only != "" {
		if full != c.only {
			return
		}
	} else if idx%c.NShards != c.Shard {
		return
	}
	if idx < c.skipProg {
		return
	}
	p := &Prog{c: c, name: full, Rng: NewRng(c.Seed, c.Prop, name)}
	f(p)
}

func (p *Prog) emit(tag byte, v any) {
	b, _ := json.Marshal(v)
	line := append([]byte{tag, ' '}, b...)
	line = append(line, '\n')
	p.c.out.Write(line)
}

// Case runs one case under the BEGIN/END protocol. spec must be JSON-marshalable.
func (p *Prog) Case(spec any, f func() *Result) {
	idx := p.caseIdx
	p.caseIdx++
	c := p.c
	if c.replay != nil {
		if idx != c.replay.Case {
			return
		}
		for i := 0; i < c.replayN; i++ {
			p.runCase(idx, spec, f)
		}
		return
	}
	if pi := progIdxOf(p.name); pi == c.skipProg && idx <= c.skipCase {
		return
	}
	if p.violating >= 12 {
		return
	}
	p.runCase(idx, spec, f)
}

func progIdxOf(full string) int {
	i := strings.IndexByte(full, '#')
	n, _ := strconv.Atoi(full[:i])
	return n
}

func (p *Prog) runCase(idx int, spec any, f func() *Result) {
	sb, _ := json.Marshal(spec)
	p.emit('B', map[string]any{"prog": p.name, "case": idx, "spec": json.RawMessage(sb)})
	r := f()
	if r == nil {
		r = &Result{}
	}
	if len(r.V) > 0 {
		p.violating++
	}
	if len(r.V) == 0 {
		r.Log = nil
		if p.c.samples >= 2 {
			r.Sample = nil
		} else if r.Sample != nil {
			p.c.samples++
		}
	}
	p.emit('E', r)
}

// ---------------------------------------------------------------------------------------
// per-episode environment

type Env struct {
	Prop  string
	clk   atomic.Int64
	mu    sync.Mutex
	log   []string
	sigH  uint64
	viol  []Violation
	st    map[string]float64
	nt    bool
	nlog  int
	Quiet bool // do not record events (race regime)
}

// quiet switches the recorder off for every episode (race regime: its mutex would add happens-before edges)
var quiet bool

func NewEnv(prop string) *Env {
	return &Env{Prop: prop, st: map[string]float64{}, sigH: 1469598103934665603, Quiet: quiet}
}

// Tick returns a fresh logical timestamp.
func (e *Env) Tick() int64 { return e.clk.Add(1) }

// Ev records an event (kind is part of the history signature, detail is not) and returns its timestamp.
func (e *Env) Ev(kind string, detail ...any) int64 {
	if e.Quiet {
		return 0
	}
	e.mu.Lock()
	seq := e.clk.Add(1)
	for i := 0; i < len(kind); i++ {
		e.sigH = (e.sigH ^ uint64(kind[i])) * 1099511628211
	}
	e.sigH = (e.sigH ^ 0xff) * 1099511628211
	if e.nlog < 400 {
		if len(detail) > 0 {
			e.log = append(e.log, fmt.Sprintf("%d %s %s", seq, kind, fmt.Sprint(detail...)))
		} else {
			e.log = append(e.log, fmt.Sprintf("%d %s", seq, kind))
		}
		e.nlog++
	}
	e.mu.Unlock()
	return seq
}

// Fail records a violation of property prop; violations of other properties than the one
// being checked are only counted (families are attributed to their own check, DESIGN.md §5.1).
func (e *Env) Fail(prop, rule, disc, detail string) {
	e.mu.Lock()
	defer e.mu.Unlock()
	if prop != e.Prop {
		e.st["foreign_"+prop]++
		return
	}
	fp := prop + "/" + rule
	if disc != "" {
		fp += "/" + disc
	}
	for _, v := range e.viol {
		if v.FP == fp {
			return
		}
	}
	e.viol = append(e.viol, Violation{Rule: rule, FP: fp, Detail: detail})
}

func (e *Env) Failed() bool {
	e.mu.Lock()
	defer e.mu.Unlock()
	return len(e.viol) > 0
}

func (e *Env) Stat(k string, v float64) {
	e.mu.Lock()
	e.st[k] += v
	e.mu.Unlock()
}

func (e *Env) StatMax(k string, v float64) {
	e.mu.Lock()
	if v > e.st["max_"+k] {
		e.st["max_"+k] = v
	}
	e.mu.Unlock()
}

func (e *Env) Nontrivial() { e.mu.Lock(); e.nt = true; e.mu.Unlock() }

// ntFor marks the episode non-trivial for one property (only counted by that property's check).
func (e *Env) ntFor(prop string) {
	if prop == e.Prop {
		e.Nontrivial()
	}
}

func (e *Env) Result(sample any) *Result {
	e.mu.Lock()
	defer e.mu.Unlock()
	r := &Result{V: e.viol, Sig: fmt.Sprintf("%016x", e.sigH), NT: e.nt, St: e.st, Sample: sample}
	r.Log = e.log
	return r
}

func (e *Env) LogCopy(max int) []string {
	e.mu.Lock()
	defer e.mu.Unlock()
	l := e.log
	if len(l) > max {
		l = l[:max]
	}
	return append([]string(nil), l...)
}

// ---------------------------------------------------------------------------------------
// bubble runner

type BubbleOutcome struct {
	Kind   string // "", "hang", "leak", "panic"
	Msg    string
	Stacks string
}

func bubbleID() string {
	buf := make([]byte, 256)
	n := runtime.Stack(buf, false)
	s := string(buf[:n])
	if i := strings.Index(s, "synctest bubble "); i >= 0 {
		j := i + len("synctest bubble ")
		k := j
		for k < len(s) && s[k] >= '0' && s[k] <= '9' {
			k++
		}
		return s[j:k]
	}
	return ""
}

// allStacks returns the stacks of all goroutines, optionally restricted to one bubble.
func allStacks(bubble string) []string {
	buf := make([]byte, 1<<20)
	for {
		n := runtime.Stack(buf, true)
		if n < len(buf) {
			buf = buf[:n]
			break
		}
		buf = make([]byte, 2*len(buf))
	}
	var out []string
	tag := "synctest bubble " + bubble + "]"
	tag2 := "synctest bubble " + bubble + ","
	for _, g := range strings.Split(string(buf), "\n\n") {
		if bubble != "" {
			hdr := g
			if i := strings.IndexByte(g, '\n'); i > 0 {
				hdr = g[:i]
			}
			if !strings.Contains(hdr, tag) && !strings.Contains(hdr, tag2) {
				continue
			}
		}
		out = append(out, g)
	}
	return out
}

const modPath = "github.com/goptics/varmq"

// libFrames returns the innermost library function of a goroutine stack ("" if none) and its creator.
func libFrames(g string) (inner, creator string) {
	lines := strings.Split(g, "\n")
	for i, l := range lines {
		if strings.HasPrefix(l, "created by ") {
			c := strings.TrimPrefix(l, "created by ")
			if j := strings.Index(c, " in goroutine"); j > 0 {
				c = c[:j]
			}
			creator = shortFn(c)
			continue
		}
		if i == 0 || strings.HasPrefix(l, "\t") {
			continue
		}
		if inner == "" && strings.HasPrefix(l, modPath) && !strings.Contains(l, "/vhook.") {
			fn := l
			if j := strings.LastIndex(fn, "("); j > 0 {
				fn = fn[:j]
			}
			inner = shortFn(fn)
		}
	}
	return
}

func shortFn(fn string) string {
	fn = strings.TrimPrefix(fn, modPath)
	// strip type parameters
	for {
		i := strings.Index(fn, "[")
		if i < 0 {
			break
		}
		depth, j := 0, i
		for ; j < len(fn); j++ {
			if fn[j] == '[' {
				depth++
			} else if fn[j] == ']' {
				depth--
				if depth == 0 {
					break
				}
			}
		}
		if j >= len(fn) {
			fn = fn[:i]
			break
		}
		fn = fn[:i] + fn[j+1:]
	}
	return fn
}

// Census counts goroutines of one bubble that have a library frame, by creator.
func Census(bubble string) (byCreator map[string]int, total int, detail []string) {
	byCreator = map[string]int{}
	for _, g := range allStacks(bubble) {
		inner, creator := libFrames(g)
		libCreated := strings.HasPrefix(creator, ".") || strings.HasPrefix(creator, "/")
		if inner == "" && !libCreated {
			continue
		}
		// goroutines of the harness that merely call into the library are clients, not library goroutines
		if !libCreated {
			continue
		}
		byCreator[creator]++
		total++
		hdr := g
		if i := strings.IndexByte(g, '\n'); i > 0 {
			hdr = g[:i]
		}
		detail = append(detail, creator+" <- "+inner+" "+hdr)
	}
	return
}

// RunBubble runs body as the main goroutine of a fresh bubble and classifies how it ended.
func RunBubble(t *testing.T, body func(bubble string)) (out BubbleOutcome) {
	var bid string
	defer func() {
		if r := recover(); r != nil {
			msg := fmt.Sprint(r)
			switch {
			case strings.Contains(msg, "all goroutines in bubble are blocked"):
				out.Kind = "hang"
			case strings.Contains(msg, "main bubble goroutine has exited"):
				out.Kind = "leak"
			default:
				out.Kind = "panic"
			}
			out.Msg = msg
			st := allStacks(bid)
			if len(st) > 40 {
				st = st[:40]
			}
			out.Stacks = strings.Join(st, "\n\n")
		}
	}()
	synctest.Test(t, func(t *testing.T) {
		bid = bubbleID()
		body(bid)
	})
	return
}

// blockedLibFrames summarises where the goroutines of a hung bubble are parked (for fingerprints).
func blockedLibFrames(stacks string) string {
	set := map[string]struct{}{}
	for _, g := range strings.Split(stacks, "\n\n") {
		inner, _ := libFrames(g)
		if inner != "" {
			set[inner] = struct{}{}
		}
	}
	var ks []string
	for k := range set {
		ks = append(ks, k)
	}
	sort.Strings(ks)
	if len(ks) > 4 {
		ks = ks[:4]
	}
	return strings.Join(ks, "|")
}

// ---------------------------------------------------------------------------------------
// stall-plan exploration

func applyPlan(pl Plan) {
	vhook.Reset()
	if pl.Noise != 0 {
		vhook.Configure(2600, 200, 60, pl.Noise)
		vhook.SetMode(vhook.Noise)
		return
	}
	if pl.Empty() {
		vhook.SetMode(vhook.Off)
		return
	}
	for i := range pl.Site {
		if i >= 3 {
			break
		}
		vhook.SetPlan(i, pl.Site[i], pl.Nth[i], pl.Us[i])
	}
	vhook.SetMode(vhook.Stall)
}

type ExploreOpts struct {
	Base      int      // unplanned repetitions
	K         int      // first K hits of every site (depth 1)
	Us        uint32   // stall length
	Funcs     []string // if non-empty: depth-1 only at sites whose function name contains one of these
	Pairs     int      // sampled depth-2 plans
	MaxCases  int      // cap on depth-1 cases (0 = none)
	NoProfile bool
	Noise     int // runs under the noise hook (random yields and short sleeps at every site)
}

func (c *RunCtx) siteMatches(id int, funcs []string) bool {
	if len(funcs) == 0 {
		return true
	}
	if id >= len(c.Sites) {
		return false
	}
	fn := c.Sites[id].Func
	for _, f := range funcs {
		if strings.Contains(fn, f) {
			return true
		}
	}
	return false
}

// Explore runs the program unplanned, profiles it, then enumerates single-stall placements
// (site x first K hits) and samples stall pairs. run must build fresh objects on every call.
func (p *Prog) Explore(run func(pl Plan) *Result, o ExploreOpts) {
	c := p.c
	if o.Us == 0 {
		o.Us = 300
	}
	wrap := func(pl Plan) func() *Result {
		return func() *Result {
			applyPlan(pl)
			r := run(pl)
			fired := 0
			for i := range pl.Site {
				if i < 3 && vhook.DidFire(i) {
					fired++
				}
			}
			vhook.SetMode(vhook.Off)
			if r != nil {
				if r.St == nil {
					r.St = map[string]float64{}
				}
				if pl.Noise != 0 {
					r.St["noise_runs"]++
					r.Sig = fmt.Sprintf("%s-n%x", r.Sig, pl.Noise)
				}
				if !pl.Empty() {
					r.St["placements_run"]++
					if fired > 0 {
						r.St["placements_fired"]++
					}
					// the plan is part of the distinctness signature
					r.Sig = fmt.Sprintf("%s-%v-%v", r.Sig, pl.Site, pl.Nth)
				}
			}
			return r
		}
	}
	if c.replay != nil {
		var pl Plan
		json.Unmarshal(c.replay.Spec, &pl)
		for i := 0; i < c.replayN; i++ {
			p.runCase(c.replay.Case, pl, wrap(pl))
		}
		return
	}
	for i := 0; i < o.Base; i++ {
		pl := Plan{Rep: i}
		p.Case(pl, wrap(pl))
	}
	for i := 0; i < o.Noise; i++ {
		pl := Plan{Rep: i, Noise: p.Rng.Next() | 1}
		p.Case(pl, wrap(pl))
	}
	if o.K == 0 && o.Pairs == 0 {
		return
	}
	// profile
	vhook.Reset()
	vhook.SetMode(vhook.Count)
	run(Plan{})
	vhook.SetMode(vhook.Off)
	type hp struct {
		id int
		n  uint32
	}
	var hit []hp
	for i := 1; i < vhook.N; i++ {
		if n := vhook.HitsOf(i); n > 0 {
			hit = append(hit, hp{i, n})
		}
	}
	ncases := 0
	for _, h := range hit {
		if !c.siteMatches(h.id, o.Funcs) {
			continue
		}
		for k := uint32(1); k <= h.n && k <= uint32(o.K); k++ {
			if o.MaxCases > 0 && ncases >= o.MaxCases {
				break
			}
			ncases++
			pl := Plan{Site: []uint32{uint32(h.id)}, Nth: []uint32{k}, Us: []uint32{o.Us}}
			p.Case(pl, wrap(pl))
		}
	}
	if len(hit) == 0 {
		return
	}
	// weighted sampling for pairs: anchored functions weight 8
	var pool []hp
	for _, h := range hit {
		w := 1
		if len(o.Funcs) > 0 && c.siteMatches(h.id, o.Funcs) {
			w = 8
		}
		for i := 0; i < w; i++ {
			pool = append(pool, h)
		}
	}
	lens := []uint32{100, 300, 1000}
	for i := 0; i < o.Pairs; i++ {
		a, b := pool[p.Rng.Intn(len(pool))], pool[p.Rng.Intn(len(pool))]
		pl := Plan{
			Site: []uint32{uint32(a.id), uint32(b.id)},
			Nth:  []uint32{1 + uint32(p.Rng.Intn(int(min(a.n, 8)))), 1 + uint32(p.Rng.Intn(int(min(b.n, 8))))},
			Us:   []uint32{lens[p.Rng.Intn(3)], lens[p.Rng.Intn(3)]},
		}
		p.Case(pl, wrap(pl))
	}
}

// ---------------------------------------------------------------------------------------
// entry point

type propFunc func(c *RunCtx)

var registry = map[string]propFunc{}

func TestVerif(t *testing.T) {
	prop := os.Getenv("VH_PROP")
	if prop == "" {
		t.Skip("driven by vcheck")
	}
	c := &RunCtx{T: t, Prop: prop, Tier: os.Getenv("VH_TIER"), NShards: 1, skipProg: -1, skipCase: -1}
	c.Seed, _ = strconv.ParseInt(os.Getenv("VH_SEED"), 10, 64)
	c.Shard, _ = strconv.Atoi(os.Getenv("VH_SHARD"))
	if n, _ := strconv.Atoi(os.Getenv("VH_NSHARDS")); n > 0 {
		c.NShards = n
	}
	if sk := os.Getenv("VH_SKIP"); sk != "" {
		fmt.Sscanf(sk, "%d:%d", &c.skipProg, &c.skipCase)
	}
	c.only = os.Getenv("VH_ONLY")
	if sp := os.Getenv("VH_SITES"); sp != "" {
		if b, err := os.ReadFile(sp); err == nil {
			json.Unmarshal(b, &c.Sites)
		}
	}
	if rp := os.Getenv("VH_REPLAY"); rp != "" {
		b, err := os.ReadFile(rp)
		if err != nil {
			t.Fatal(err)
		}
		c.replay = &replaySpec{}
		json.Unmarshal(b, c.replay)
		c.replayN, _ = strconv.Atoi(os.Getenv("VH_REPLAY_N"))
		if c.replayN < 1 {
			c.replayN = 1
		}
	}
	out, err := os.OpenFile(os.Getenv("VH_OUT"), os.O_CREATE|os.O_WRONLY|os.O_APPEND, 0o644)
	if err != nil {
		t.Fatal(err)
	}
	c.out = out
	f, ok := registry[prop]
	if !ok {
		out.WriteString("I unknown property " + prop + "\n")
		out.WriteString("D done\n")
		return
	}
	f(c)
	out.WriteString("D done\n")
	out.Close()
}
