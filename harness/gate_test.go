package vharness

// The gated family: every job blocks on its own gate, one client goroutine issues one operation
// at a time and lets the bubble reach a quiescent point after each. At a quiescent point the set
// of executing jobs, the pending count, the idle-pool size and the goroutine census are exact, so
// they are compared for equality with a sequential reference model (DESIGN.md §6 C02/C03/C04/C18).

import (
	"fmt"
	"runtime"
	"sort"
	"strings"
	"testing/synctest"
	"time"
)

type gateOp struct {
	Kind string // add, release, tune, pause, resume, cancel, purge, restart, stop, sleep
	Arg  int
	Prio int
}

type gateCfg struct {
	WK     WK
	QK     QK
	Conc   int
	Expiry time.Duration
	Ratio  int
	Ops    []gateOp
}

func (c gateCfg) String() string {
	var ops []string
	for _, o := range c.Ops {
		switch o.Kind {
		case "add":
			ops = append(ops, fmt.Sprintf("add(p%d)", o.Prio))
		case "release", "tune", "cancel":
			ops = append(ops, fmt.Sprintf("%s(%d)", o.Kind, o.Arg))
		default:
			ops = append(ops, o.Kind)
		}
	}
	return fmt.Sprintf("gate wk=%v qk=%v conc=%d exp=%v ratio=%d ops=[%s]", c.WK, c.QK, c.Conc, c.Expiry, c.Ratio, strings.Join(ops, " "))
}

type gateBias struct {
	Adapters bool
	MaxOps   int
	Expiry   int
	Tune     bool
	Life     bool
}

func drawGate(r *Rng, b gateBias) gateCfg {
	c := gateCfg{WK: Pick(r, WPlain, WErr, WResult), QK: Pick(r, QFifo, QPrio)}
	if b.Adapters && r.Chance(40) {
		c.WK = WPlain
		c.QK = Pick(r, QPers, QPersPrio, QDist, QDistPrio)
	}
	c.Conc = Pick(r, 1, 2, 2, 3, 4, 6)
	if r.Chance(b.Expiry) {
		c.Expiry = Pick(r, time.Millisecond, 10*time.Millisecond)
		c.Ratio = Pick(r, 1, 25, 50, 100)
	}
	nops := 4 + r.Intn(b.MaxOps)
	prios := []int{0, 0, 1, 1, 2, -1, 5, -(1 << 62), 1 << 62}
	if c.QK.Priority() && r.Chance(40) {
		// one or two priority levels only: arrival order among equals decides nearly every dispatch
		prios = Pick(r, []int{0}, []int{3}, []int{0, 0, 0, 1}, []int{-1, 7})
	}
	// some programs first lower or raise the limit and go through Stop/Restart, so that the limit in
	// effect after a restart is the tuned one
	if b.Tune && b.Life && r.Chance(30) {
		c.Ops = append(c.Ops, gateOp{Kind: "tune", Arg: Pick(r, 1, 2, 3, 5)})
		if r.Bool() {
			c.Ops = append(c.Ops, gateOp{Kind: "stop"})
		}
		c.Ops = append(c.Ops, gateOp{Kind: "restart"})
	}
	// start with a burst of adds so that the pool saturates
	for i := 0; i < max(c.Conc, 5)+1+r.Intn(3); i++ {
		c.Ops = append(c.Ops, gateOp{Kind: "add", Prio: Pick(r, prios...)})
	}
	if c.QK == QPrio && len(prios) <= 4 {
		// drain a little, then add: the newcomers rank behind everything of their priority that is still
		// pending, however many have left the queue since those were added
		for rep := 0; rep < 1+r.Intn(3); rep++ {
			for i := 0; i < 1+r.Intn(3); i++ {
				c.Ops = append(c.Ops, gateOp{Kind: "release", Arg: 0})
			}
			for i := 0; i < 1+r.Intn(2); i++ {
				c.Ops = append(c.Ops, gateOp{Kind: "add", Prio: Pick(r, prios...)})
			}
		}
	}
	if c.QK.Adapter() && b.Tune && c.Conc >= 3 && r.Chance(50) {
		// a dispatch burst is suspended inside the adapter with spare capacity under the old limit only,
		// the limit is lowered meanwhile: the rest of the burst must honour the new limit
		c.Ops = append(c.Ops, gateOp{Kind: "holddeq"}, gateOp{Kind: "release", Arg: 0}, gateOp{Kind: "release", Arg: 0},
			gateOp{Kind: "tune", Arg: 1}, gateOp{Kind: "add", Prio: 0}, gateOp{Kind: "unhold"})
	}
	for i := 0; i < nops; i++ {
		k := r.Intn(100)
		switch {
		case c.QK.Adapter() && k >= 86 && k < 95:
			// park the dispatcher inside its next dequeue, complete some jobs meanwhile, then let it go
			c.Ops = append(c.Ops, gateOp{Kind: "holddeq"}, gateOp{Kind: "release", Arg: r.Intn(8)})
			if b.Tune && r.Bool() {
				// the limit changes while a dispatch burst is suspended
				c.Ops = append(c.Ops, gateOp{Kind: "tune", Arg: Pick(r, 1, 1, 2, 3, 8)})
			}
			c.Ops = append(c.Ops, gateOp{Kind: "release", Arg: r.Intn(8)}, gateOp{Kind: "add", Prio: Pick(r, prios...)}, gateOp{Kind: "unhold"})
		case k < 30:
			c.Ops = append(c.Ops, gateOp{Kind: "add", Prio: Pick(r, prios...)})
		case k < 55:
			c.Ops = append(c.Ops, gateOp{Kind: "release", Arg: r.Intn(8)})
		case k < 70 && b.Tune:
			arg := Pick(r, 1, 2, 3, 4, 5, 8, 0)
			c.Ops = append(c.Ops, gateOp{Kind: "tune", Arg: arg})
			if arg == 0 && r.Bool() {
				// n<1 means NumCPU: submit more than that many jobs
				for i := 0; i < numCPU()+4; i++ {
					c.Ops = append(c.Ops, gateOp{Kind: "add", Prio: Pick(r, prios...)})
				}
			}
		case k < 78 && b.Life:
			c.Ops = append(c.Ops, gateOp{Kind: "pause"})
		case k < 86 && b.Life:
			c.Ops = append(c.Ops, gateOp{Kind: "resume"})
		case k < 90:
			c.Ops = append(c.Ops, gateOp{Kind: "cancel", Arg: r.Intn(8)})
		case k < 93:
			c.Ops = append(c.Ops, gateOp{Kind: "purge"})
		case k < 96 && b.Life:
			c.Ops = append(c.Ops, gateOp{Kind: Pick(r, "restart", "stop")})
		case k < 98 && b.Life:
			c.Ops = append(c.Ops, gateOp{Kind: "bind", Arg: r.Intn(6)})
		default:
			c.Ops = append(c.Ops, gateOp{Kind: "sleep"})
		}
	}
	return c
}

// model of one pending entry
type mJob struct {
	idx       int
	prio      int
	seq       int
	cancelled bool
}

type gateModel struct {
	prioQ   bool
	queue   []*mJob
	running map[int]bool
	limit   int
	state   string // Running, Paused, Stopped
	seq     int
	// limits in effect while the oldest running job has been running (for the C02 bound)
	maxSince map[int]int
	maxLimit int
	held     bool  // the dispatcher is parked inside a dequeue call of the adapter, holding the item it took
	transit  *mJob // that item: taken from the queue, not yet executing
}

func (m *gateModel) push(j *mJob) {
	j.seq = m.seq
	m.seq++
	m.queue = append(m.queue, j)
	if m.prioQ {
		sort.SliceStable(m.queue, func(a, b int) bool {
			if m.queue[a].prio != m.queue[b].prio {
				return m.queue[a].prio < m.queue[b].prio
			}
			return m.queue[a].seq < m.queue[b].seq
		})
	}
}

// settle performs the dispatches the real worker must have performed by the next quiescent point.
func (m *gateModel) settle() {
	if m.held && m.transit == nil && len(m.queue) > 0 {
		m.transit = m.queue[0]
		m.queue = m.queue[1:]
	}
	if !m.held && m.transit != nil {
		m.running[m.transit.idx] = true
		m.maxSince[m.transit.idx] = m.limit
		m.transit = nil
	}
	for !m.held && m.state == "Running" && len(m.running) < m.limit && len(m.queue) > 0 {
		j := m.queue[0]
		m.queue = m.queue[1:]
		if j.cancelled {
			continue
		}
		m.running[j.idx] = true
		m.maxSince[j.idx] = m.limit
	}
}

func epGate(c *RunCtx, cfg gateCfg) *Result {
	e := NewEnv(c.Prop)
	nAdds := 0
	for _, o := range cfg.Ops {
		if o.Kind == "add" {
			nAdds++
		}
	}
	k := NewKit(e, nAdds)
	ended := false
	out := RunBubble(c.T, func(bid string) {
		var wcfg []any
		wcfg = append(wcfg, cfg.Conc)
		if cfg.Expiry > 0 {
			wcfg = append(wcfg, varmqExpiry(cfg.Expiry), varmqRatio(uint8(cfg.Ratio)))
		}
		var led *Ledger
		if cfg.QK.Adapter() {
			led = NewLedger(e, cfg.QK.Priority())
		}
		s := NewSubject(cfg.WK, k.Work, wcfg...)
		q := s.Bind(cfg.QK, led)
		m := &gateModel{prioQ: cfg.QK.Priority(), running: map[int]bool{}, limit: cfg.Conc, state: "Running", maxSince: map[int]int{}, maxLimit: cfg.Conc}
		next := 0
		released := map[int]bool{}
		purged := map[int]bool{}
		cancelled := map[int]bool{}
		var startOrder []int // model dispatch order (for the final order check)
		tuned := false
		var hold chan struct{}
		lifeSeen := false
		check := func(step int, op string) bool {
			synctest.Wait()
			if led != nil {
				m.held = led.IsHeld()
			}
			before := map[int]bool{}
			for i := range m.running {
				before[i] = true
			}
			m.settle()
			for i := range m.running {
				if !before[i] {
					startOrder = append(startOrder, i)
				}
			}
			// observed running set
			obs := map[int]bool{}
			for _, r := range k.Recs {
				if r.Enter.Load() != 0 && r.Exit.Load() == 0 {
					obs[r.Idx] = true
				}
			}
			where := fmt.Sprintf("step %d after %s", step, op)
			switch op {
			case "pause", "resume", "stop", "restart":
				lifeSeen = true
			}
			// the order clause of C09: what was pending across a pause/stop window is served in queue order
			orderFail := func(rule, det string) {
				e.Fail("C04", rule, cfg.QK.String(), det)
				if lifeSeen {
					e.Fail("C09", "order-after-resume", cfg.QK.String(), det)
				}
			}
			want, got := keys(m.running), keys(obs)
			if fmt.Sprint(want) != fmt.Sprint(got) {
				// attribute: too many => C02, too few with pending => C03, wrong members => C04
				det := fmt.Sprintf("%s: executing jobs %v, reference model %v (limit %d, state %s, model queue %v)", where, got, want, m.limit, m.state, mq(m.queue))
				// a job behind the one in the dispatcher's hands executes: the started set is not a prefix
				if m.transit != nil && !obs[m.transit.idx] {
					for _, later := range m.queue {
						if obs[later.idx] {
							orderFail("started-set-not-prefix", det+fmt.Sprintf("; job %d was taken from the queue first and has not started", m.transit.idx))
						}
					}
				}
				for _, j := range m.queue {
					if j.cancelled {
						continue
					}
					if !obs[j.idx] {
						for _, later := range m.queue {
							if later.seq != j.seq && obs[later.idx] {
								orderFail("started-set-not-prefix", det)
							}
						}
					}
					break
				}
				switch {
				case len(got) > len(want):
					e.Fail("C02", "more-in-flight-than-model", "", det)
					if len(got) > m.maxLimit {
						e.Fail("C02", "above-largest-limit", "", det)
					}
					if m.state != "Running" {
						e.Fail("C09", "started-while-not-running", m.state, det)
					}
				case len(got) < len(want):
					e.Fail("C03", "no-progress-at-quiescence", "", det)
				default:
					orderFail("wrong-job-dispatched", det)
				}
				if tuned {
					e.Fail("C18", "tune-capacity", "", det)
				}
				return false
			}
			if len(got) > 1 {
				e.ntFor("C02")
			}
			if len(m.queue) > 0 {
				e.ntFor("C03")
				e.ntFor("C04")
			}
			e.StatMax("inflight", float64(len(got)))
			// C02: bound by the largest limit in effect since the oldest running job was dispatched
			bound := m.limit
			for i := range m.running {
				if m.maxSince[i] > bound {
					bound = m.maxSince[i]
				}
			}
			if len(got) > bound {
				e.Fail("C02", "above-limit", "", fmt.Sprintf("%s: %d jobs executing, bound %d", where, len(got), bound))
			}
			// C17: exact counters at the quiescent point
			if p := q.Base.NumPending(); p != len(m.queue) {
				e.Fail("C17", "pending-at-q", cfg.QK.String(), fmt.Sprintf("%s: queue.NumPending=%d, model %d", where, p, len(m.queue)))
			}
			if p := s.W.NumPending(); p != len(m.queue) {
				e.Fail("C17", "worker-pending-at-q", cfg.QK.String(), fmt.Sprintf("%s: worker.NumPending=%d, model %d", where, p, len(m.queue)))
			}
			reserved := 0
			if m.held {
				reserved = 1 // the parked dispatch holds its slot
				e.ntFor("C04")
			}
			if p := s.W.NumProcessing(); p != len(got)+reserved {
				e.Fail("C17", "processing-at-q", "", fmt.Sprintf("%s: NumProcessing=%d, executing %d", where, p, len(got)))
			}
			if st := s.W.Status(); st != m.state {
				e.Fail("C14", "state", m.state+">"+st, fmt.Sprintf("%s: status %s, model %s", where, st, m.state))
			}
			// handles of executing jobs read Processing, pending ones Queued
			for _, r := range k.Recs {
				if r.H == nil {
					continue
				}
				st := r.H.Status()
				switch {
				case obs[r.Idx] && st != "Processing":
					e.Fail("C16", "executing-not-processing", st, fmt.Sprintf("%s: job %d executes but reads %s", where, r.Idx, st))
				case !obs[r.Idx] && st == "Processing":
					e.Fail("C03", "processing-without-goroutine", "", fmt.Sprintf("%s: job %d reads Processing but no function is executing it", where, r.Idx))
				}
			}
			// C18: census (a full goroutine dump: only taken by the checks that own it)
			if c.Prop != "C18" && c.Prop != "C02" {
				e.Stat("quiescent_points", 1)
				return !e.Failed()
			}
			by, _, det := Census(bid)
			nodes := by[".(*worker).initPoolNode"]
			idle := s.W.NumIdleWorkers()
			e.StatMax("pool_goroutines", float64(nodes))
			if nodes > m.maxLimit {
				e.Fail("C18", "too-many-pool-goroutines", "", fmt.Sprintf("%s: %d pool goroutines, largest limit %d\n%s", where, nodes, m.maxLimit, strings.Join(det, "\n")))
			}
			if nodes != idle+len(got) {
				e.Fail("C18", "pool-census-mismatch", "", fmt.Sprintf("%s: %d pool goroutines, idle %d + executing %d\n%s", where, nodes, idle, len(got), strings.Join(det, "\n")))
			}
			loops := by[".(*worker).goEventLoop"]
			wantLoops := 1
			if m.state == "Stopped" {
				wantLoops = 0
			}
			if loops != wantLoops {
				e.Fail("C18", "event-loops", fmt.Sprint(loops), fmt.Sprintf("%s: %d event loop goroutines, want %d\n%s", where, loops, wantLoops, strings.Join(det, "\n")))
			}
			reapers := by[".(*worker).goRemoveIdleWorkers"]
			wantReapers := 0
			if cfg.Expiry > 0 && m.state != "Stopped" {
				wantReapers = 1
			}
			if reapers != wantReapers {
				e.Fail("C18", "reapers", fmt.Sprint(reapers), fmt.Sprintf("%s: %d idle-remover goroutines, want %d\n%s", where, reapers, wantReapers, strings.Join(det, "\n")))
			}
			if m.state == "Running" && idle+len(got) < 1 {
				e.Fail("C18", "no-worker-goroutine", "", where+": running worker without any pool goroutine")
			}
			if m.state == "Running" && len(got) == 0 && idle < 1 {
				e.Fail("C18", "no-idle-worker", "", where+": running idle worker keeps no idle pool goroutine")
			}
			e.Stat("quiescent_points", 1)
			return !e.Failed()
		}
		if !check(0, "bind") {
			return
		}
		for step, op := range cfg.Ops {
			if hold != nil {
				switch op.Kind {
				case "release", "add", "sleep", "unhold", "holddeq", "tune":
				default:
					close(hold)
					hold = nil
					led.Disarm()
					e.Ev("unhold")
					if !check(step, "unhold") {
						return
					}
				}
			}
			switch op.Kind {
			case "add":
				i := next
				next++
				k.Recs[i].Prio = op.Prio
				k.Recs[i].Gate = make(chan struct{})
				k.Add(q, i)
				if !k.Recs[i].OK {
					e.Fail("C01", "rejected-on-open-queue", "", fmt.Sprintf("add %d rejected", i))
					return
				}
				m.push(&mJob{idx: i, prio: op.Prio})
			case "release":
				// release the arg-th running job (by index order)
				run := keys(m.running)
				if len(run) == 0 {
					continue
				}
				i := run[op.Arg%len(run)]
				close(k.Recs[i].Gate)
				released[i] = true
				delete(m.running, i)
			case "tune":
				eff := op.Arg
				if eff < 1 {
					eff = numCPU()
				}
				err := s.W.TunePool(op.Arg)
				e.Ev("tune", op.Arg, err)
				switch {
				case m.state != "Running":
					if !isErr(err, errNotRunning) {
						e.Fail("C14", "tune-error", m.state, fmt.Sprintf("TunePool on %s worker returned %v", m.state, err))
					}
				case eff == m.limit:
					if !isErr(err, errSameConc) {
						e.Fail("C14", "tune-error", "same", fmt.Sprintf("TunePool(same) returned %v", err))
					}
				default:
					if err != nil {
						e.Fail("C14", "tune-error", "running", fmt.Sprintf("TunePool(%d) returned %v", op.Arg, err))
					}
					m.limit = eff
					tuned = true
					if eff > m.maxLimit {
						m.maxLimit = eff
					}
					for i := range m.running {
						if eff > m.maxSince[i] {
							m.maxSince[i] = eff
						}
					}
					if got := s.W.NumConcurrency(); got != eff {
						e.Fail("C18", "num-concurrency", "", fmt.Sprintf("NumConcurrency=%d after TunePool(%d)", got, op.Arg))
						e.Fail("C02", "limit-not-as-tuned", "", fmt.Sprintf("NumConcurrency=%d after TunePool(%d), expected %d (n<1 means NumCPU=%d; GOMAXPROCS=%d)", got, op.Arg, eff, numCPU(), runtime.GOMAXPROCS(0)))
					}
					e.ntFor("C18")
				}
			case "pause":
				err := s.W.Pause()
				e.Ev("pause", err)
				if m.state == "Running" {
					m.state = "Paused"
				}
			case "resume":
				err := s.W.Resume()
				e.Ev("resume", err)
				if m.state == "Paused" {
					m.state = "Running"
					e.ntFor("C09")
				}
			case "cancel":
				if len(m.queue) == 0 {
					continue
				}
				j := m.queue[op.Arg%len(m.queue)]
				if k.Recs[j.idx].H == nil || j.cancelled {
					continue
				}
				k.Close(j.idx)
				if k.Recs[j.idx].CloseErr != nil {
					e.Fail("C10", "cancel-pending-failed", "", fmt.Sprintf("Close on pending job %d returned %v", j.idx, k.Recs[j.idx].CloseErr))
				}
				j.cancelled = true
				cancelled[j.idx] = true
			case "purge":
				q.Base.Purge()
				e.Ev("purge")
				for _, j := range m.queue {
					purged[j.idx] = true
				}
				m.queue = nil
			case "restart", "stop":
				if len(m.running) != 0 {
					continue // would block behind gated jobs
				}
				if op.Kind == "restart" {
					err := s.W.Restart()
					e.Ev("restart", err)
					m.state = "Running"
					if got := s.W.NumConcurrency(); got != m.limit {
						e.Fail("C02", "limit-changed-by-restart", "", fmt.Sprintf("NumConcurrency=%d after Restart, the limit in effect was %d", got, m.limit))
					}
				} else {
					err := s.W.Stop()
					e.Ev("stop", err)
					m.state = "Stopped"
				}
			case "bind":
				// binding another queue never changes the state nor the parallelism
				bk := QK(op.Arg)
				if cfg.WK != WPlain {
					bk = QK(op.Arg % 2)
				}
				var l2 *Ledger
				if bk.Adapter() {
					l2 = NewLedger(e, bk.Priority())
				}
				s.Bind(bk, l2)
				e.Ev("bind", bk.String())
				e.ntFor("C02")
			case "holddeq":
				if led == nil || hold != nil || m.state != "Running" {
					continue
				}
				hold = led.HoldNextDequeue()
				e.Ev("holddeq")
			case "unhold":
				if hold == nil {
					continue
				}
				close(hold)
				hold = nil
				led.Disarm()
				e.Ev("unhold")
			case "sleep":
				d := 100 * time.Microsecond
				if cfg.Expiry > 0 {
					d = 3 * cfg.Expiry
				}
				time.Sleep(d)
				e.Ev("sleep")
			}
			if !check(step+1, op.Kind) {
				return
			}
		}
		if hold != nil {
			close(hold)
			hold = nil
			led.Disarm()
		}
		// wind down: make the worker run, release everything in model order, one quiescent point per release
		switch m.state {
		case "Paused":
			s.W.Resume()
			m.state = "Running"
		case "Stopped":
			s.W.Restart()
			m.state = "Running"
		}
		if !check(len(cfg.Ops)+1, "wind-down") {
			return
		}
		for guard := 0; len(m.running) > 0 && guard < 10000; guard++ {
			run := keys(m.running)
			i := run[0]
			close(k.Recs[i].Gate)
			released[i] = true
			delete(m.running, i)
			if !check(len(cfg.Ops)+2+guard, "release") {
				return
			}
		}
		// everything done: final accounting
		for _, r := range k.Recs {
			if !r.Submitted {
				continue
			}
			runs := int(r.Runs.Load())
			switch {
			case cancelled[r.Idx] || purged[r.Idx]:
				if runs != 0 {
					e.Fail("C10", "cancelled-ran", "", fmt.Sprintf("job %d was cancelled/purged while pending but ran", r.Idx))
					e.Fail("C01", "cancelled-ran", "", fmt.Sprintf("job %d was cancelled/purged while pending but ran", r.Idx))
				}
				if r.H != nil && r.H.Status() != "Closed" {
					e.Fail("C10", "cancelled-not-closed", "", fmt.Sprintf("job %d cancelled/purged reads %s", r.Idx, r.H.Status()))
				}
			case runs != 1:
				e.Fail("C01", "not-exactly-once", "", fmt.Sprintf("job %d ran %d times", r.Idx, runs))
			}
		}
		// C04: with the model's dispatch order the real start order must agree
		type st struct {
			idx   int
			enter int64
		}
		var real []st
		for _, r := range k.Recs {
			if en := r.Enter.Load(); en != 0 {
				real = append(real, st{r.Idx, en})
			}
		}
		sort.Slice(real, func(a, b int) bool { return real[a].enter < real[b].enter })
		if cfg.Conc == 1 && m.maxLimit == 1 {
			var ro []int
			for _, x := range real {
				ro = append(ro, x.idx)
			}
			if fmt.Sprint(ro) != fmt.Sprint(startOrder) {
				e.Fail("C04", "execution-order", cfg.QK.String(), fmt.Sprintf("execution order %v, reference order %v", ro, startOrder))
				if lifeSeen {
					e.Fail("C09", "order-after-resume", cfg.QK.String(), fmt.Sprintf("execution order %v, reference order %v", ro, startOrder))
				}
			}
		}
		// idle trimming (C18): after the idle period only the configured minimum stays
		if cfg.Expiry > 0 {
			time.Sleep(4 * cfg.Expiry)
			synctest.Wait()
			target := max(m.limit*cfg.Ratio/100, 1)
			idle := s.W.NumIdleWorkers()
			if idle < 1 || idle > target {
				e.Fail("C18", "idle-not-trimmed", "", fmt.Sprintf("after 4 idle periods NumIdleWorkers=%d, want 1..%d (limit %d ratio %d%%)", idle, target, m.limit, cfg.Ratio))
			}
			by, _, det := Census(bid)
			if n := by[".(*worker).initPoolNode"]; n != idle {
				e.Fail("C18", "pool-census-mismatch", "after-trim", fmt.Sprintf("%d pool goroutines, %d idle after trimming\n%s", n, idle, strings.Join(det, "\n")))
			}
			e.ntFor("C18")
		}
		if !k.Await(func() { s.W.Stop() }) {
			hangFail(e, "C06", "Stop(final)", bid)
			return
		}
		synctest.Wait()
		by, total, det := Census(bid)
		if total != 0 {
			e.Fail("C18", "goroutines-after-stop", creators(by), fmt.Sprintf("%d library goroutines remain after Stop returned: %v\n%s", total, by, strings.Join(det, "\n")))
		}
		if led != nil {
			if p, u, _ := led.State(); p != 0 || u != 0 {
				e.Fail("C11", "ledger-not-drained", "", fmt.Sprintf("adapter holds pending=%d unacked=%d at the end", p, u))
			}
			for _, pr := range led.ProblemsCopy() {
				e.Fail("C11", "bad-ack", "", pr)
			}
		}
		e.ntFor("C01")
		e.ntFor("C17")
		ended = true
	})
	switch out.Kind {
	case "hang":
		e.Fail("C03", "hang", "deadlock/"+blockedLibFrames(out.Stacks), "bubble deadlock: "+out.Msg+"\n"+out.Stacks)
	case "leak":
		if ended {
			e.Fail("C18", "leak-after-stop", blockedLibFrames(out.Stacks), out.Msg+"\n"+out.Stacks)
		}
	case "panic":
		e.Fail(c.Prop, "harness-panic", "", out.Msg+"\n"+out.Stacks)
	}
	return e.Result(k.Sample(cfg.String()))
}

func keys(m map[int]bool) []int {
	var r []int
	for i := range m {
		r = append(r, i)
	}
	sort.Ints(r)
	return r
}

func mq(q []*mJob) []string {
	var r []string
	for _, j := range q {
		s := fmt.Sprintf("%d(p%d)", j.idx, j.prio)
		if j.cancelled {
			s += "x"
		}
		r = append(r, s)
	}
	return r
}

func creators(by map[string]int) string {
	var ks []string
	for k := range by {
		ks = append(ks, k)
	}
	sort.Strings(ks)
	return strings.Join(ks, ",")
}
