package vharness

// Subject layer: hides the three worker kinds and six queue kinds behind closures so that
// families are written once (DESIGN.md §5.1). Payload type is int (the job's index in the
// episode), result type is int.

import (
	"errors"
	"fmt"
	"time"

	"github.com/goptics/varmq"
)

type WK int

const (
	WPlain WK = iota
	WErr
	WResult
)

func (k WK) String() string { return [...]string{"plain", "err", "result"}[k] }

type QK int

const (
	QFifo QK = iota
	QPrio
	QPers
	QPersPrio
	QDist
	QDistPrio
)

func (k QK) String() string {
	return [...]string{"fifo", "prio", "persistent", "persistent-prio", "distributed", "distributed-prio"}[k]
}

func (k QK) Priority() bool { return k == QPrio || k == QPersPrio || k == QDistPrio }
func (k QK) Adapter() bool  { return k >= QPers }

// Outcome of the worker function for one job.
type Outcome struct {
	Val   int
	Err   error
	Panic any
}

// WorkFn is the harness' worker function: it receives the job as the library passes it.
type WorkFn func(j varmq.Job[int]) Outcome

type Batch struct {
	Wait       func()
	NumPending func() int
	Results    <-chan varmq.Result[int]
	Errs       <-chan error
	Drain      func()
}

// BoundQ is one queue bound to a worker.
type BoundQ struct {
	Kind   QK
	Base   varmq.IExternalBaseQueue
	Led    *Ledger
	add    func(data, prio int, cfg ...varmq.JobConfigFunc) (varmq.EnqueuedJob, bool)
	addAll func(items []varmq.Item[int]) *Batch
}

// Add submits one job. The handle is nil for adapter-backed queues.
func (q *BoundQ) Add(data, prio int, id string) (varmq.EnqueuedJob, bool) {
	if id != "" {
		return q.add(data, prio, varmq.WithJobId(id))
	}
	return q.add(data, prio)
}

func (q *BoundQ) AddAll(items []varmq.Item[int]) *Batch {
	if q.addAll == nil {
		return nil
	}
	return q.addAll(items)
}

type Subject struct {
	WK   WK
	W    varmq.Worker
	bind func(k QK, led *Ledger) *BoundQ
}

func (s *Subject) Bind(k QK, led *Ledger) *BoundQ { return s.bind(k, led) }

// ResultOf reads the outcome through the handle (Err for error workers, Result for result workers).
func ResultOf(h varmq.EnqueuedJob) (int, error, bool) {
	switch x := h.(type) {
	case varmq.EnqueuedResultJob[int]:
		v, err := x.Result()
		return v, err, true
	case varmq.EnqueuedErrJob:
		return 0, x.Err(), true
	}
	return 0, nil, false
}

func DrainOf(h varmq.EnqueuedJob) bool {
	if d, ok := h.(varmq.Drainer); ok {
		d.Drain()
		return true
	}
	return false
}

var errBoom = errors.New("boom")

// NewSubject creates a worker of the given kind around fn. cfg are varmq worker configs.
func NewSubject(wk WK, fn WorkFn, cfg ...any) *Subject {
	s := &Subject{WK: wk}
	switch wk {
	case WPlain:
		b := varmq.NewWorker(func(j varmq.Job[int]) {
			o := fn(j)
			if o.Panic != nil {
				panic(o.Panic)
			}
		}, cfg...)
		s.W = b
		s.bind = func(k QK, led *Ledger) *BoundQ {
			q := &BoundQ{Kind: k, Led: led}
			switch k {
			case QFifo:
				x := b.BindQueue()
				q.Base = x
				q.add = func(d, p int, c ...varmq.JobConfigFunc) (varmq.EnqueuedJob, bool) { return x.Add(d, c...) }
				q.addAll = func(it []varmq.Item[int]) *Batch {
					g := x.AddAll(it)
					return &Batch{Wait: g.Wait, NumPending: g.NumPending}
				}
			case QPrio:
				x := b.BindPriorityQueue()
				q.Base = x
				q.add = func(d, p int, c ...varmq.JobConfigFunc) (varmq.EnqueuedJob, bool) { return x.Add(d, p, c...) }
				q.addAll = func(it []varmq.Item[int]) *Batch {
					g := x.AddAll(it)
					return &Batch{Wait: g.Wait, NumPending: g.NumPending}
				}
			case QPers:
				x := b.WithPersistentQueue(led.Q())
				q.Base = x
				q.add = func(d, p int, c ...varmq.JobConfigFunc) (varmq.EnqueuedJob, bool) { return nil, x.Add(d, c...) }
			case QPersPrio:
				x := b.WithPersistentPriorityQueue(led.PQ())
				q.Base = x
				q.add = func(d, p int, c ...varmq.JobConfigFunc) (varmq.EnqueuedJob, bool) { return nil, x.Add(d, p, c...) }
			case QDist:
				x := b.WithDistributedQueue(led.Q())
				q.Base = x
				q.add = func(d, p int, c ...varmq.JobConfigFunc) (varmq.EnqueuedJob, bool) { return nil, x.Add(d, c...) }
			case QDistPrio:
				x := b.WithDistributedPriorityQueue(led.PQ())
				q.Base = x
				q.add = func(d, p int, c ...varmq.JobConfigFunc) (varmq.EnqueuedJob, bool) { return nil, x.Add(d, p, c...) }
			}
			return q
		}
	case WErr:
		b := varmq.NewErrWorker(func(j varmq.Job[int]) error {
			o := fn(j)
			if o.Panic != nil {
				panic(o.Panic)
			}
			return o.Err
		}, cfg...)
		s.W = b
		s.bind = func(k QK, led *Ledger) *BoundQ {
			q := &BoundQ{Kind: k}
			switch k {
			case QFifo:
				x := b.BindQueue()
				q.Base = x
				q.add = func(d, p int, c ...varmq.JobConfigFunc) (varmq.EnqueuedJob, bool) {
					h, ok := x.Add(d, c...)
					if !ok {
						return nil, false
					}
					return h, ok
				}
				q.addAll = func(it []varmq.Item[int]) *Batch {
					g := x.AddAll(it)
					return &Batch{Wait: g.Wait, NumPending: g.NumPending, Errs: g.Errs(), Drain: g.Drain}
				}
			case QPrio:
				x := b.BindPriorityQueue()
				q.Base = x
				q.add = func(d, p int, c ...varmq.JobConfigFunc) (varmq.EnqueuedJob, bool) {
					h, ok := x.Add(d, p, c...)
					if !ok {
						return nil, false
					}
					return h, ok
				}
				q.addAll = func(it []varmq.Item[int]) *Batch {
					g := x.AddAll(it)
					return &Batch{Wait: g.Wait, NumPending: g.NumPending, Errs: g.Errs(), Drain: g.Drain}
				}
			default:
				panic(fmt.Sprint("err worker cannot bind ", k))
			}
			return q
		}
	case WResult:
		b := varmq.NewResultWorker(func(j varmq.Job[int]) (int, error) {
			o := fn(j)
			if o.Panic != nil {
				panic(o.Panic)
			}
			return o.Val, o.Err
		}, cfg...)
		s.W = b
		s.bind = func(k QK, led *Ledger) *BoundQ {
			q := &BoundQ{Kind: k}
			switch k {
			case QFifo:
				x := b.BindQueue()
				q.Base = x
				q.add = func(d, p int, c ...varmq.JobConfigFunc) (varmq.EnqueuedJob, bool) {
					h, ok := x.Add(d, c...)
					if !ok {
						return nil, false
					}
					return h, ok
				}
				q.addAll = func(it []varmq.Item[int]) *Batch {
					g := x.AddAll(it)
					return &Batch{Wait: g.Wait, NumPending: g.NumPending, Results: g.Results(), Drain: g.Drain}
				}
			case QPrio:
				x := b.BindPriorityQueue()
				q.Base = x
				q.add = func(d, p int, c ...varmq.JobConfigFunc) (varmq.EnqueuedJob, bool) {
					h, ok := x.Add(d, p, c...)
					if !ok {
						return nil, false
					}
					return h, ok
				}
				q.addAll = func(it []varmq.Item[int]) *Batch {
					g := x.AddAll(it)
					return &Batch{Wait: g.Wait, NumPending: g.NumPending, Results: g.Results(), Drain: g.Drain}
				}
			default:
				panic(fmt.Sprint("result worker cannot bind ", k))
			}
			return q
		}
	}
	return s
}

func varmqExpiry(d time.Duration) any { return varmq.WithIdleWorkerExpiryDuration(d) }
func varmqRatio(p uint8) any          { return varmq.WithMinIdleWorkerRatio(p) }

var (
	errNotRunning = varmq.ErrNotRunningWorker
	errSameConc   = varmq.ErrSameConcurrency
)
