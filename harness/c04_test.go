package vharness

// C04 (b),(c): the two in-memory queue types checked directly.
//  - concurrent histories of Enqueue(unique value[, priority]) / Dequeue / Purge on one object,
//    recorded with call/return stamps and checked for linearizability by porcupine against a
//    FIFO list / an ordered list with arrival tie-break;
//  - sequential differential runs against the same models with runs crossing the FIFO's
//    segment boundaries (1024, 1536, 2304, ...);
//  - bursts through a worker with concurrency 1 (execution order == acceptance order).
// The queue values are obtained through the exported embedded fields of the mocks package.

import (
	"fmt"
	"runtime"
	"sort"
	"strconv"
	"strings"
	"sync"
	"sync/atomic"
	"testing/synctest"
	"time"

	"github.com/anishathalye/porcupine"
	"github.com/goptics/varmq"
	"github.com/goptics/varmq/mocks"
)

type qOp struct {
	Kind string // enq, deq, purge
	Val  int
	Prio int
}

type qOut struct {
	Val int
	OK  bool
}

// state encoding: comma separated "prio:seq:val" entries in dequeue order, then "|" next seq
func fifoModel(prio bool) porcupine.Model {
	type ent struct{ p, s, v int }
	dec := func(st string) ([]ent, int) {
		parts := strings.SplitN(st, "|", 2)
		n, _ := strconv.Atoi(parts[1])
		var es []ent
		if parts[0] != "" {
			for _, x := range strings.Split(parts[0], ",") {
				f := strings.Split(x, ":")
				p, _ := strconv.Atoi(f[0])
				s, _ := strconv.Atoi(f[1])
				v, _ := strconv.Atoi(f[2])
				es = append(es, ent{p, s, v})
			}
		}
		return es, n
	}
	enc := func(es []ent, n int) string {
		var sb strings.Builder
		for i, e := range es {
			if i > 0 {
				sb.WriteByte(',')
			}
			fmt.Fprintf(&sb, "%d:%d:%d", e.p, e.s, e.v)
		}
		fmt.Fprintf(&sb, "|%d", n)
		return sb.String()
	}
	return porcupine.Model{
		Init: func() any { return "|0" },
		Step: func(st, in, out any) (bool, any) {
			es, n := dec(st.(string))
			op, o := in.(qOp), out.(qOut)
			switch op.Kind {
			case "enq":
				if !o.OK {
					return false, st
				}
				e := ent{0, n, op.Val}
				if prio {
					e.p = op.Prio
				}
				es = append(es, e)
				if prio {
					sort.SliceStable(es, func(a, b int) bool {
						if es[a].p != es[b].p {
							return es[a].p < es[b].p
						}
						return es[a].s < es[b].s
					})
				}
				return true, enc(es, n+1)
			case "deq":
				if len(es) == 0 {
					return !o.OK, st
				}
				if !o.OK || o.Val != es[0].v {
					return false, st
				}
				return true, enc(es[1:], n)
			case "purge":
				return true, enc(nil, n)
			}
			return false, st
		},
	}
}

type rawQueue interface {
	Dequeue() (any, bool)
	Purge()
	Len() int
}

// epQueueLin: concurrent history on one queue object, checked by porcupine.
func epQueueLin(c *RunCtx, prio bool, seed uint64) *Result {
	e := NewEnv(c.Prop)
	r := &Rng{s: seed | 1}
	nG := 2 + r.Intn(3)
	per := 4 + r.Intn(6)
	var q rawQueue
	var enq func(v, p int) bool
	if prio {
		pq := mocks.NewMockPersistentPriorityQueue().PriorityQueue
		q, enq = pq, func(v, p int) bool { return pq.Enqueue(v, p) }
	} else {
		fq := mocks.NewMockPersistentQueue().Queue
		q, enq = fq, func(v, p int) bool { return fq.Enqueue(v) }
	}
	// pre-fill across a segment boundary in some histories so that dequeues walk over it
	pre := Pick(r, 0, 0, 3, 1023, 1024, 1025)
	var clk atomic.Int64
	var ops []porcupine.Operation
	// the prefill and its sequential drain happen before the recorded history: the model starts from what is left
	for i := 0; i < pre; i++ {
		if !enq(100000+i, 0) {
			e.Fail("C04", "enqueue-refused", "", "open queue refused an item")
		}
	}
	initState := "|0"
	if pre > 0 {
		left := min(pre, 2)
		for i := 0; i < pre-left; i++ {
			if v, ok := q.Dequeue(); !ok || v.(int) != 100000+i {
				e.Fail("C04", "wrong-item", "prefill", fmt.Sprintf("sequential drain: got (%v,%v), want %d", v, ok, 100000+i))
			}
		}
		var ents []string
		for i := pre - left; i < pre; i++ {
			ents = append(ents, fmt.Sprintf("0:%d:%d", i, 100000+i))
		}
		initState = strings.Join(ents, ",") + fmt.Sprintf("|%d", pre)
	}
	var mu sync.Mutex
	var wg sync.WaitGroup
	start := make(chan struct{})
	progs := make([][]qOp, nG)
	for g := 0; g < nG; g++ {
		for i := 0; i < per; i++ {
			k := r.Intn(100)
			switch {
			case k < 50:
				progs[g] = append(progs[g], qOp{"enq", g*1000 + i, Pick(r, 0, 0, 1, -1, 2)})
			case k < 94:
				progs[g] = append(progs[g], qOp{Kind: "deq"})
			default:
				progs[g] = append(progs[g], qOp{Kind: "purge"})
			}
		}
	}
	for g := 0; g < nG; g++ {
		wg.Add(1)
		go func(g int) {
			defer wg.Done()
			<-start
			var mine []porcupine.Operation
			for _, op := range progs[g] {
				t0 := clk.Add(1)
				var o qOut
				switch op.Kind {
				case "enq":
					o.OK = enq(op.Val, op.Prio)
				case "deq":
					v, ok := q.Dequeue()
					vi, _ := v.(int)
					o = qOut{vi, ok}
				case "purge":
					q.Purge()
				}
				t1 := clk.Add(1)
				mine = append(mine, porcupine.Operation{ClientId: g + 1, Input: op, Call: t0, Output: o, Return: t1})
			}
			mu.Lock()
			ops = append(ops, mine...)
			mu.Unlock()
		}(g)
	}
	close(start)
	wg.Wait()
	// final drain (sequential) makes lost or duplicated items visible
	for {
		t0 := clk.Add(1)
		v, ok := q.Dequeue()
		vi, _ := v.(int)
		ops = append(ops, porcupine.Operation{ClientId: 0, Input: qOp{Kind: "deq"}, Call: t0, Output: qOut{vi, ok}, Return: clk.Add(1)})
		if !ok {
			break
		}
	}
	if l := q.Len(); l != 0 {
		e.Fail("C17", "len-after-drain", "", fmt.Sprintf("Len()=%d after draining", l))
	}
	model := fifoModel(prio)
	model.Init = func() any { return initState }
	res, _ := porcupine.CheckOperationsVerbose(model, ops, 20*time.Second)
	kind := "fifo"
	if prio {
		kind = "priority"
	}
	// overlapping operations make the history non-trivial
	sort.Slice(ops, func(a, b int) bool { return ops[a].Call < ops[b].Call })
	overlap := false
	var maxRet int64
	for _, o := range ops {
		if o.Call < maxRet {
			overlap = true
		}
		if o.Return > maxRet {
			maxRet = o.Return
		}
	}
	if overlap {
		e.Nontrivial()
	}
	var hist []string
	for _, o := range ops {
		in, out := o.Input.(qOp), o.Output.(qOut)
		hist = append(hist, fmt.Sprintf("[%d,%d] c%d %s(%d,p%d)->(%d,%v)", o.Call, o.Return, o.ClientId, in.Kind, in.Val, in.Prio, out.Val, out.OK))
	}
	switch res {
	case porcupine.Illegal:
		e.Fail("C04", "not-linearizable", kind, fmt.Sprintf("no linearization of this %s queue history exists (prefill %d):\n%s", kind, pre, strings.Join(hist, "\n")))
	case porcupine.Unknown:
		rr := e.Result(nil)
		rr.Inc = "porcupine timed out on a " + kind + " history"
		return rr
	}
	e.Stat("histories_checked", 1)
	e.Stat("history_ops", float64(len(ops)))
	rr := e.Result(map[string]any{"queue": kind, "prefill": pre, "history": firstN(hist, 40)})
	rr.Sig = fmt.Sprintf("lin-%s-%x-%s", kind, seed, sigOf(hist))
	return rr
}

func firstN(s []string, n int) []string {
	if len(s) > n {
		return s[:n]
	}
	return s
}

func sigOf(h []string) string {
	var x uint64 = 1469598103934665603
	for _, s := range h {
		for i := 0; i < len(s); i++ {
			x = (x ^ uint64(s[i])) * 1099511628211
		}
	}
	return fmt.Sprintf("%x", x)
}

// epQueueDiff: long sequential random operation sequences against the reference list.
func epQueueDiff(c *RunCtx, prio bool, seed uint64) *Result {
	e := NewEnv(c.Prop)
	r := &Rng{s: seed | 1}
	var q rawQueue
	var enq func(v, p int) bool
	var values func() []any
	if prio {
		pq := mocks.NewMockPersistentPriorityQueue().PriorityQueue
		q, enq, values = pq, func(v, p int) bool { return pq.Enqueue(v, p) }, pq.Values
	} else {
		fq := mocks.NewMockPersistentQueue().Queue
		q, enq, values = fq, func(v, p int) bool { return fq.Enqueue(v) }, fq.Values
	}
	type ent struct{ p, s, v int }
	var model []ent
	seq, nops := 0, 0
	kind := "fifo"
	if prio {
		kind = "priority"
	}
	push := func(v, p int) {
		if !enq(v, p) {
			e.Fail("C04", "enqueue-refused", kind, "open queue refused an item")
		}
		ent := ent{0, seq, v}
		if prio {
			ent.p = p
			i := sort.Search(len(model), func(i int) bool {
				return model[i].p > p
			})
			model = append(model, ent)
			copy(model[i+1:], model[i:])
			model[i] = ent
		} else {
			model = append(model, ent)
		}
		seq++
		nops++
	}
	pop := func() bool {
		v, ok := q.Dequeue()
		nops++
		if len(model) == 0 {
			if ok {
				e.Fail("C04", "dequeue-from-empty", kind, fmt.Sprintf("Dequeue returned %v from an empty queue", v))
				return false
			}
			return true
		}
		if !ok || v.(int) != model[0].v {
			e.Fail("C04", "wrong-item", kind, fmt.Sprintf("op %d: Dequeue returned (%v,%v), reference head is %d (prio %d, arrival %d); %d pending", nops, v, ok, model[0].v, model[0].p, model[0].s, len(model)))
			return false
		}
		model = model[1:]
		return true
	}
	val := 0
	phases := 3 + r.Intn(5)
	for ph := 0; ph < phases && !e.Failed(); ph++ {
		// a run of enqueues that crosses one of the segment boundaries exactly or nearly
		run := Pick(r, 1, 7, 1023, 1024, 1025, 1536, 2559, 2560, 2561, 3456, 4864, 4865, 300, 5000)
		if c.Thorough() && r.Chance(3) {
			run = Pick(r, 102400, 110000, 160000)
		}
		for i := 0; i < run; i++ {
			push(val, Pick(r, 0, 0, 1, -1, 5, -(1<<62), 1<<62, r.Intn(4)))
			val++
		}
		if l := q.Len(); l != len(model) {
			e.Fail("C17", "len-mismatch", kind, fmt.Sprintf("Len()=%d, reference %d", l, len(model)))
		}
		if vs := values(); len(vs) != len(model) {
			e.Fail("C04", "values-mismatch", kind, fmt.Sprintf("Values() has %d entries, reference %d", len(vs), len(model)))
		}
		// mixed phase
		mix := r.Intn(3000)
		for i := 0; i < mix && !e.Failed(); i++ {
			if r.Chance(45) {
				push(val, r.Intn(3))
				val++
			} else if !pop() {
				break
			}
		}
		switch r.Intn(4) {
		case 0:
			q.Purge()
			model = nil
			nops++
		case 1:
			for len(model) > 0 && pop() {
			}
			pop()
		default:
			k := r.Intn(len(model) + 1)
			for i := 0; i < k && pop(); i++ {
			}
		}
		if l := q.Len(); l != len(model) {
			e.Fail("C17", "len-mismatch", kind, fmt.Sprintf("Len()=%d, reference %d", l, len(model)))
		}
	}
	for len(model) > 0 && !e.Failed() && pop() {
	}
	e.Stat("diff_ops", float64(nops))
	e.Nontrivial()
	rr := e.Result(map[string]any{"queue": kind, "operations": nops, "phases": phases})
	rr.Sig = fmt.Sprintf("diff-%s-%x", kind, seed)
	return rr
}

// epBurstOrder: a burst larger than the FIFO's segments through a worker with concurrency 1.
type burstCfg struct {
	WK      WK
	QK      QK
	N       int
	Preload bool // paused while loading, then resumed
	Prods   int
	Batch   bool
	// MidAt >= 0 (preloaded FIFO, one producer): the job with that index is gated; when it executes,
	// exactly MidAt+1 items have been taken from the queue; MidAdds further jobs are submitted at that
	// quiescent point (a segment boundary on the consumer side while the write segment is full)
	MidAt   int
	MidAdds int
	// Toggle: a goroutine keeps calling Pause and Resume while the backlog drains
	Toggle bool
}

func (b burstCfg) String() string {
	return fmt.Sprintf("burst wk=%v qk=%v n=%d preload=%v prods=%d batch=%v midAt=%d midAdds=%d toggle=%v", b.WK, b.QK, b.N, b.Preload, b.Prods, b.Batch, b.MidAt, b.MidAdds, b.Toggle)
}

func epBurstOrder(c *RunCtx, cfg burstCfg) *Result {
	e := NewEnv(c.Prop)
	e.Quiet = true
	var order []int
	var omu sync.Mutex
	total := cfg.N
	if cfg.MidAt >= 0 {
		total += cfg.MidAdds
	}
	runs := make([]atomic.Int32, total)
	out := RunBubble(c.T, func(bid string) {
		midGate := make(chan struct{})
		s := NewSubject(cfg.WK, func(j varmq.Job[int]) Outcome {
			d := j.Data()
			runs[d].Add(1)
			omu.Lock()
			order = append(order, d)
			omu.Unlock()
			if d == cfg.MidAt {
				<-midGate
			}
			return Outcome{Val: d}
		}, 1)
		q := s.Bind(cfg.QK, nil)
		if cfg.Preload {
			s.W.Pause()
		}
		prioOf := func(i int) int {
			if cfg.QK == QPrio {
				return (i * 7) % 5
			}
			return 0
		}
		// acceptance order is known per producer; with several producers only per-producer order is checked
		var wg sync.WaitGroup
		for p := 0; p < cfg.Prods; p++ {
			wg.Add(1)
			go func(p int) {
				defer wg.Done()
				if cfg.Batch && p == 0 {
					// the first two thirds as one batch, the rest one by one afterwards: a submission made
					// after AddAll returned must not overtake the batch's tail
					var items []varmq.Item[int]
					var mine []int
					for i := p; i < cfg.N; i += cfg.Prods {
						mine = append(mine, i)
					}
					cut := len(mine) * 2 / 3
					if len(mine) > 1200 {
						cut = []int{1025, 1026, 1100, cut}[cfg.N%4]
					}
					for _, i := range mine[:cut] {
						items = append(items, varmq.Item[int]{ID: "", Data: i, Priority: prioOf(i)})
					}
					q.AddAll(items)
					for _, i := range mine[cut:] {
						if _, ok := q.Add(i, prioOf(i), ""); !ok {
							e.Fail("C01", "rejected-on-open-queue", "", fmt.Sprintf("add %d rejected", i))
						}
					}
					return
				}
				for i := p; i < cfg.N; i += cfg.Prods {
					if _, ok := q.Add(i, prioOf(i), ""); !ok {
						e.Fail("C01", "rejected-on-open-queue", "", fmt.Sprintf("add %d rejected", i))
					}
				}
			}(p)
		}
		wg.Wait()
		if cfg.Preload {
			if p := q.Base.NumPending(); p != cfg.N {
				e.Fail("C17", "pending-at-q", "burst", fmt.Sprintf("NumPending=%d after loading %d jobs into a paused worker", p, cfg.N))
			}
			s.W.Resume()
		}
		if cfg.Toggle {
			// Pause and Resume race the dispatcher's status check / dequeue while the backlog drains
			done := make(chan struct{})
			go func() {
				defer close(done)
				for i := 0; i < 400; i++ {
					s.W.Pause()
					if i%3 == 0 {
						runtime.Gosched()
					}
					s.W.Resume()
					for y := 0; y < i%5; y++ {
						runtime.Gosched()
					}
				}
			}()
			<-done
		}
		synctest.Wait()
		if cfg.MidAt >= 0 {
			omu.Lock()
			taken := len(order)
			omu.Unlock()
			if taken != cfg.MidAt+1 {
				e.Fail("C04", "fifo-order", "burst-mid", fmt.Sprintf("%s: %d jobs started when the gated job %d executes at concurrency 1", cfg, taken, cfg.MidAt))
			}
			for i := cfg.N; i < total; i++ {
				if _, ok := q.Add(i, 0, ""); !ok {
					e.Fail("C01", "rejected-on-open-queue", "", fmt.Sprintf("add %d rejected", i))
				}
			}
			if p, want := q.Base.NumPending(), total-cfg.MidAt-1; p != want {
				e.Fail("C17", "pending-at-q", "burst-mid", fmt.Sprintf("%s: NumPending=%d with %d jobs accepted and %d taken, expected %d", cfg, p, total, cfg.MidAt+1, want))
			}
			close(midGate)
			// bounded progress instead of waiting for quiescence: a dispatcher that spins on a queue it cannot
			// read from never lets the bubble settle. The bound is in scheduler yields of this goroutine
			// since the last job started, not in time.
			prev, idle, stalled := -1, 0, false
			for {
				omu.Lock()
				n := len(order)
				omu.Unlock()
				if n >= total {
					break
				}
				if n != prev {
					prev, idle = n, 0
				} else if idle++; idle > 4_000_000 {
					stalled = true
					break
				}
				runtime.Gosched()
			}
			if stalled {
				e.Quiet = false
				det := fmt.Sprintf("%s: after job %d finished and %d more jobs were submitted, %d of %d accepted jobs started and then nothing started during 4,000,000 scheduler yields; NumPending=%d NumProcessing=%d status=%s", cfg, cfg.MidAt, cfg.MidAdds, prev, total, s.W.NumPending(), s.W.NumProcessing(), s.W.Status())
				e.Fail("C01", "lost", "burst-mid", det)
				e.Fail("C03", "no-progress", "burst-mid", det)
				e.Fail("C04", "fifo-order", "burst-mid-stalled", det)
				s.W.Stop()
				return
			}
			synctest.Wait()
		}
		s.W.Stop()
		synctest.Wait()
	})
	e.Quiet = false
	if out.Kind == "hang" || out.Kind == "panic" {
		e.Fail("C03", out.Kind, "burst/"+blockedLibFrames(out.Stacks), cfg.String()+": "+out.Msg)
	}
	for i := range runs {
		if n := runs[i].Load(); n != 1 {
			e.Fail("C01", "not-exactly-once", "burst", fmt.Sprintf("%s: job %d ran %d times (executed %d of %d)", cfg, i, n, len(order), total))
			break
		}
	}
	// order: FIFO => per producer increasing; preloaded priority queue => sorted by (priority, per-producer arrival)
	last := map[int]int{}
	lastPrio := -1 << 62
	for pos, d := range order {
		p := d % cfg.Prods
		if cfg.QK == QFifo {
			if prev, ok := last[p]; ok && prev > d {
				e.Fail("C04", "fifo-order", "burst", fmt.Sprintf("%s: job %d executed at position %d after job %d of the same producer", cfg, d, pos, prev))
				if cfg.Toggle {
					e.Fail("C09", "order-after-resume", "burst-toggle", fmt.Sprintf("%s: job %d executed at position %d after job %d of the same producer: the backlog did not keep its order across Pause/Resume", cfg, d, pos, prev))
				}
				break
			}
			last[p] = d
		} else if cfg.Preload {
			pr := (d * 7) % 5
			if pr < lastPrio {
				e.Fail("C04", "priority-order", "burst", fmt.Sprintf("%s: job %d (priority %d) executed at position %d after a job of priority %d", cfg, d, pr, pos, lastPrio))
				break
			}
			if pr > lastPrio {
				last = map[int]int{}
			}
			lastPrio = pr
			if prev, ok := last[p]; ok && prev > d {
				e.Fail("C04", "priority-tie-order", "burst", fmt.Sprintf("%s: equal priority %d: job %d executed after job %d of the same producer", cfg, pr, d, prev))
				break
			}
			last[p] = d
		}
	}
	e.Stat("burst_jobs", float64(cfg.N))
	e.Nontrivial()
	rr := e.Result(map[string]any{"program": cfg.String()})
	rr.Sig = cfg.String()
	return rr
}

// toggleBurstPrograms: only the Pause/Resume-toggling variant of the burst family
func toggleBurstPrograms(c *RunCtx, nq, nt int) {
	burstOnlyToggle = true
	burstPrograms(c, nq, nt)
	burstOnlyToggle = false
}

var burstOnlyToggle bool

func burstPrograms(c *RunCtx, nq, nt int) {
	sizes := []int{1023, 1024, 1025, 1026, 2559, 2560, 2561, 3000, 4863, 4864, 4865, 6000}
	only := burstOnlyToggle
	for v := 0; v < c.Q(nq, nt); v++ {
		c.Program(fmt.Sprintf("burst/%d", v), func(p *Prog) {
			r := p.Rng
			v := v
			if only {
				v = 6*v + 4
			}
			cfg := burstCfg{WK: Pick(r, WPlain, WErr, WResult), QK: Pick(r, QFifo, QFifo, QPrio), N: sizes[v%len(sizes)], Preload: r.Bool(), Prods: Pick(r, 1, 2, 3, 4, 8), Batch: r.Chance(25), MidAt: -1}
			switch v % 6 {
			case 1:
				// the consumer stands at a segment boundary (1024, 1024+1536, ...) while the producer's
				// segment is exactly full, then more arrives
				cfg.QK, cfg.Preload, cfg.Prods, cfg.Batch = QFifo, true, 1, false
				cfg.N = Pick(r, 2560, 2560, 6400, 1024, 2561)
				cfg.MidAt = Pick(r, 1023, 1023, 2559, 1022, 1024)
				if cfg.MidAt >= cfg.N {
					cfg.MidAt = 1023
				}
				cfg.MidAdds = Pick(r, 1, 2, 5, 1600)
			case 4:
				cfg.QK, cfg.Preload, cfg.Batch = QFifo, true, false
				cfg.N = Pick(r, 1500, 3000, 4000)
				cfg.Toggle = true
			}
			if v%4 == 3 && cfg.MidAt < 0 && !cfg.Toggle {
				// a batch that crosses the first segment boundary, then single submissions behind it
				cfg.Batch, cfg.QK = true, QFifo
				cfg.Prods = Pick(r, 1, 1, 2)
				cfg.N = Pick(r, 3200, 4100, 6000)
			}
			if c.Thorough() && v%40 == 39 {
				cfg.N = Pick(r, 110000, 260000)
				cfg.QK = QFifo
			}
			o := ExploreOpts{Base: 1}
			if cfg.Toggle {
				o = ExploreOpts{Base: 3, Noise: c.Q(6, 30), K: 3, Funcs: []string{"processNextJob", "Pause", "Resume"}, MaxCases: c.Q(40, 200)}
			} else if cfg.N < 7000 && cfg.Prods > 1 {
				// stalls inside Enqueue/Dequeue: the sites of the segment hand-over are first hit exactly at a boundary
				o = ExploreOpts{Base: 2, K: 2, Funcs: []string{"Queue.Enqueue", "Queue.Dequeue", "NewChunk", "Chunk.Push", "Chunk.Pop"}, MaxCases: c.Q(24, 60)}
			}
			p.Explore(func(pl Plan) *Result { return epBurstOrder(c, cfg) }, o)
		})
	}
}

func queuePrograms(c *RunCtx) {
	for v := 0; v < c.Q(1500, 40000); v++ {
		c.Program(fmt.Sprintf("lin/%d", v), func(p *Prog) {
			seed := p.Rng.Next()
			prio := v%2 == 1
			o := ExploreOpts{Base: 1}
			if v%10 < 3 {
				o = ExploreOpts{Base: 1, K: 2, Funcs: []string{"Queue.Enqueue", "Queue.Dequeue", "Queue.Purge", "PriorityQueue.Enqueue", "PriorityQueue.Dequeue", "PriorityQueue.Purge", "Chunk", "heapQueue"}, MaxCases: c.Q(12, 40)}
			}
			p.Explore(func(pl Plan) *Result { return epQueueLin(c, prio, seed) }, o)
		})
	}
	for v := 0; v < c.Q(160, 4000); v++ {
		c.Program(fmt.Sprintf("diff/%d", v), func(p *Prog) {
			seed := p.Rng.Next()
			p.Case(map[string]any{"seed": seed}, func() *Result { return epQueueDiff(c, v%2 == 1, seed) })
		})
	}
}

// epPurgeBurst: a paused worker holds more pending jobs than one FIFO segment; Purge must cancel
// every one of them (handles Closed, waiters released, nothing runs after Resume).
func epPurgeBurst(c *RunCtx, wk WK, qk QK, n, batch int) *Result {
	e := NewEnv(c.Prop)
	e.Quiet = true
	desc := fmt.Sprintf("purge-burst wk=%v qk=%v n=%d batch=%d", wk, qk, n, batch)
	var ran atomic.Int64
	out := RunBubble(c.T, func(bid string) {
		s := NewSubject(wk, func(j varmq.Job[int]) Outcome { ran.Add(1); return Outcome{} }, 2)
		q := s.Bind(qk, nil)
		s.W.Pause()
		var hs []varmq.EnqueuedJob
		for i := 0; i < n; i++ {
			h, ok := q.Add(i, i%3, "")
			if !ok {
				e.Fail("C01", "rejected-on-open-queue", "", desc)
				return
			}
			hs = append(hs, h)
		}
		var b *Batch
		if batch > 0 {
			items := make([]varmq.Item[int], batch)
			for i := range items {
				items[i] = varmq.Item[int]{ID: fmt.Sprint(i), Data: n + i}
			}
			b = q.AddAll(items)
			if b.Drain != nil {
				b.Drain()
			}
		}
		q.Base.Purge()
		notClosed := 0
		first := -1
		for i, h := range hs {
			if h.Status() != "Closed" {
				notClosed++
				if first < 0 {
					first = i
				}
			}
		}
		e.Quiet = false
		if notClosed > 0 {
			det := fmt.Sprintf("%s: %d of %d purged jobs are not Closed after Purge returned (first: job %d, status %s); NumPending=%d", desc, notClosed, n, first, hs[first].Status(), q.Base.NumPending())
			e.Fail("C10", "purge-drop", "burst", det)
			e.Fail("C05", "purged-waiters-not-released", "burst", det)
			e.Fail("C01", "lost", "purge-burst", det)
		}
		k := NewKit(e, 0)
		if !e.Failed() {
			if !k.Await(func() {
				for _, h := range hs {
					h.Wait()
				}
				if b != nil {
					b.Wait()
				}
			}) {
				hangFail(e, "C05", "Wait-after-purge", bid)
				e.Fail("C10", "purged-waiters-blocked", "burst", desc)
				if b != nil {
					e.Fail("C08", "batch-wait-hang", "purge-burst", desc+": the batch's Wait did not return after its pending items were purged")
				}
				return
			}
			if b != nil && b.NumPending() != 0 {
				e.Fail("C08", "pending-after-wait", "purge-burst", fmt.Sprintf("%s: batch NumPending=%d after purge and Wait", desc, b.NumPending()))
			}
		}
		if p := q.Base.NumPending(); p != 0 {
			e.Fail("C17", "pending-at-rest", "purge-burst", fmt.Sprintf("%s: NumPending=%d after Purge", desc, p))
		}
		s.W.Resume()
		synctest.Wait()
		if r := ran.Load(); r != 0 {
			e.Fail("C10", "cancelled-ran", "burst", fmt.Sprintf("%s: %d purged jobs ran after Resume", desc, r))
			e.Fail("C01", "cancelled-ran", "purge-burst", fmt.Sprintf("%s: %d purged jobs ran after Resume", desc, r))
		}
		s.W.Stop()
		synctest.Wait()
	})
	e.Quiet = false
	if out.Kind == "hang" || out.Kind == "panic" {
		e.Fail("C05", out.Kind, "purge-burst/"+blockedLibFrames(out.Stacks), desc+": "+out.Msg)
	}
	e.Nontrivial()
	rr := e.Result(map[string]any{"program": desc})
	rr.Sig = desc
	return rr
}

func purgeBurstPrograms(c *RunCtx, nq, nt int) {
	sizes := []int{1023, 1024, 1025, 1500, 2560, 2561, 3000, 5000}
	for v := 0; v < c.Q(nq, nt); v++ {
		c.Program(fmt.Sprintf("purge-burst/%d", v), func(p *Prog) {
			r := p.Rng
			wk, qk, n, batch := Pick(r, WPlain, WErr, WResult), Pick(r, QFifo, QFifo, QPrio), sizes[v%len(sizes)], Pick(r, 0, 0, 7, 1100)
			p.Explore(func(pl Plan) *Result { return epPurgeBurst(c, wk, qk, n, batch) }, ExploreOpts{Base: 1})
		})
	}
}
