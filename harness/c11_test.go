package vharness

// C11 - acknowledge only after processing, at most once; no accepted job lost in a crash.
// C13 - distributed consumers drain the shared queue; each item is run by exactly one.
// Both are decided on the recording ledger adapter (ledger_test.go): call log on the logical
// clock, durable-state cut after every mutating adapter call, recovery run from every cut,
// transient adapter faults by call index (DESIGN.md §6 C11, C13).

import (
	"context"
	"encoding/json"
	"fmt"
	"sort"
	"strings"
	"sync"
	"sync/atomic"
	"testing/synctest"
	"time"

	"github.com/goptics/varmq"
)

func init() {
	registry["C11"] = runC11
	registry["C13"] = runC13
}

type ackCfg struct {
	QK      QK
	Conc    int
	N       int
	Work    []time.Duration
	Out     []int // 0 ok, 2 panic
	FailEnq []int
	FailDeq []int
	FailAck []int
	Preload int // entries already stored before the worker is bound
	Async   bool
	CtxAt   int // >0: the worker has a context which is cancelled after this many virtual microseconds
	Prods   int // >1: that many goroutines submit at the same time through the same queue object
}

func (c ackCfg) String() string {
	return fmt.Sprintf("ack qk=%v conc=%d n=%d preload=%d failEnq=%v failDeq=%v failAck=%v async=%v ctxAt=%d prods=%d out=%v", c.QK, c.Conc, c.N, c.Preload, c.FailEnq, c.FailDeq, c.FailAck, c.Async, c.CtxAt, c.Prods, c.Out)
}

func drawAck(r *Rng) ackCfg {
	c := ackCfg{QK: Pick(r, QPers, QPersPrio, QDist, QDistPrio), Conc: Pick(r, 1, 1, 2, 3, 8), N: 2 + r.Intn(9)}
	for i := 0; i < c.N; i++ {
		c.Work = append(c.Work, Pick(r, 0, time.Microsecond, 10*time.Microsecond))
		c.Out = append(c.Out, Pick(r, 0, 0, 0, 0, 2))
	}
	if r.Chance(40) {
		c.Preload = r.Intn(c.N)
	}
	if r.Chance(30) {
		c.FailEnq = append(c.FailEnq, 1+r.Intn(c.N))
	}
	if r.Chance(30) {
		c.FailDeq = append(c.FailDeq, 1+r.Intn(c.N))
	}
	if r.Chance(30) {
		c.FailAck = append(c.FailAck, 1+r.Intn(c.N))
	}
	c.Async = r.Chance(30)
	if r.Chance(25) {
		c.CtxAt = 1 + r.Intn(30)
	}
	if r.Chance(30) {
		c.Prods = 2 + r.Intn(2)
	}
	return c
}

func itemData(b []byte) int {
	var v struct {
		Data int `json:"data"`
	}
	if json.Unmarshal(b, &v) != nil {
		return -1
	}
	return v.Data
}

func entryBytes(i int) []byte {
	return []byte(fmt.Sprintf(`{"id":"e%d","status":"Created","data":%d}`, i, i))
}

func epAck(c *RunCtx, cfg ackCfg) *Result {
	e := NewEnv(c.Prop)
	k := NewKit(e, cfg.N)
	for i, r := range k.Recs {
		r.Work = cfg.Work[i]
		if cfg.Out[i] == 2 {
			r.Out = Outcome{Panic: fmt.Sprintf("panic-%d", i)}
		}
	}
	out := RunBubble(c.T, func(bid string) {
		led := NewLedger(e, cfg.QK.Priority())
		led.KeepCuts = true
		led.Async = cfg.Async
		for _, x := range cfg.FailEnq {
			led.FailEnq[x] = true
		}
		for _, x := range cfg.FailDeq {
			led.FailDeq[x] = true
		}
		for _, x := range cfg.FailAck {
			led.FailAck[x] = true
		}
		accepted := map[int]bool{}
		for i := 0; i < cfg.Preload; i++ {
			led.Preload(entryBytes(i), 0)
			k.Recs[i].Submitted, k.Recs[i].OK = true, true
			accepted[i] = true
		}
		var wcfg []any
		wcfg = append(wcfg, cfg.Conc)
		if cfg.CtxAt > 0 {
			ctx, cancel := context.WithCancel(context.Background())
			defer cancel()
			wcfg = append(wcfg, varmq.WithContext(ctx))
			go func() {
				time.Sleep(time.Duration(cfg.CtxAt) * time.Microsecond)
				cancel()
			}()
		}
		s := NewSubject(WPlain, k.Work, wcfg...)
		q := s.Bind(cfg.QK, led)
		ech := s.W.Errs()
		var emu sync.Mutex
		var errs []string
		go func() {
			for er := range ech {
				emu.Lock()
				errs = append(errs, er.Error())
				emu.Unlock()
			}
		}()
		if cfg.Prods > 1 {
			var pwg sync.WaitGroup
			for p := 0; p < cfg.Prods; p++ {
				pwg.Add(1)
				go func() {
					defer pwg.Done()
					for i := cfg.Preload + p; i < cfg.N; i += cfg.Prods {
						k.Add(q, i)
					}
				}()
			}
			pwg.Wait()
		} else {
			for i := cfg.Preload; i < cfg.N; i++ {
				k.Add(q, i)
			}
		}
		for i := cfg.Preload; i < cfg.N; i++ {
			if k.Recs[i].OK {
				accepted[i] = true
			}
		}
		var total time.Duration
		for _, w := range cfg.Work {
			total += w
		}
		time.Sleep(2*total + 100*time.Microsecond)
		synctest.Wait()
		calls := led.CallsCopy()
		// map item seq -> job index
		idx := func(seq int) int { return itemData(led.ItemBytes(seq)) }
		// (1) every acknowledgement follows the function's return for that delivery
		acks := map[int]int{}
		delivered := map[string]int{}
		for _, cl := range calls {
			switch cl.Kind {
			case "deq":
				delivered[cl.AckID] = cl.Item
			case "ack", "ack-fail":
				i := idx(cl.Item)
				if want, ok := delivered[cl.AckID]; !ok || want != cl.Item {
					e.Fail("C11", "foreign-ack-id", "", fmt.Sprintf("%s: Acknowledge(%s) for item %d, that id was issued for item %d", cfg, cl.AckID, cl.Item, want))
				}
				if i >= 0 {
					if cl.Kind == "ack" {
						acks[i]++
					}
					ex := k.Recs[i].Exit.Load()
					if ex == 0 || ex > cl.Stamp {
						e.Fail("C11", "ack-before-processed", "", fmt.Sprintf("%s: item of job %d acknowledged at %d, its function returned at %d (enter %d)", cfg, i, cl.Stamp, ex, k.Recs[i].Enter.Load()))
					}
					if ex != 0 && ex < cl.Stamp {
						e.Nontrivial()
					}
				}
			case "ack-bad":
				e.Fail("C11", "bad-ack", "", fmt.Sprintf("%s: Acknowledge(%s) does not name an outstanding delivery", cfg, cl.AckID))
			}
		}
		for _, pr := range led.ProblemsCopy() {
			e.Fail("C11", "bad-ack", strings.Fields(pr)[0], cfg.String()+": "+pr)
		}
		// (2) outcome in this process: every accepted item ran once; the adapter is drained except refused acks
		p, u, a := led.State()
		stoppedByCtx := cfg.CtxAt > 0
		for i, r := range k.Recs {
			runs := int(r.Runs.Load())
			if stoppedByCtx {
				// the cancelled worker leaves the rest to the adapter; nothing may run twice here
				if runs > 1 {
					e.Fail("C11", "ran-twice", "", fmt.Sprintf("%s: job %d ran %d times", cfg, i, runs))
				}
				continue
			}
			if accepted[i] && runs != 1 {
				e.Fail("C11", "accepted-not-processed", "", fmt.Sprintf("%s: job %d accepted by the adapter ran %d times (pending=%d unacked=%d acked=%d errs=%v)", cfg, i, runs, p, u, a, errs))
				e.Fail("C01", "not-exactly-once", "ledger", fmt.Sprintf("%s: job %d ran %d times", cfg, i, runs))
			}
			if !accepted[i] && runs != 0 {
				e.Fail("C11", "refused-but-ran", "", fmt.Sprintf("%s: job %d was refused by the adapter but ran", cfg, i))
			}
			if acks[i] > 1 {
				e.Fail("C11", "acked-twice", "", fmt.Sprintf("%s: job %d acknowledged %d times", cfg, i, acks[i]))
			}
		}
		if p != 0 && !stoppedByCtx {
			e.Fail("C11", "pending-left", "", fmt.Sprintf("%s: %d entries still pending at quiescence (errs %v)", cfg, p, errs))
		}
		if u != len(cfg.failAckEffective(calls)) && !stoppedByCtx {
			e.Fail("C11", "unacked-left", "", fmt.Sprintf("%s: %d deliveries unacknowledged at quiescence, %d acknowledgements were refused by the adapter", cfg, u, len(cfg.failAckEffective(calls))))
		}
		nacc := len(accepted)
		wantSub := nacc - cfg.Preload
		if got := int(s.W.Metrics().Submitted()); got != wantSub && !stoppedByCtx {
			e.Fail("C17", "submitted", "ledger/"+cfg.QK.String(), fmt.Sprintf("%s: Submitted=%d, accepted through this worker %d", cfg, got, wantSub))
		}
		// metrics at rest: every finished invocation is counted once (also when its acknowledgement was refused)
		exits, fails := 0, 0
		for _, r := range k.Recs {
			if r.Exit.Load() != 0 {
				exits++
				if r.Out.Panic != nil {
					fails++
				}
			}
		}
		if m := s.W.Metrics(); (int(m.Completed()) != exits || m.Completed() != m.Successful()+m.Failed() || int(m.Failed()) != fails) && !stoppedByCtx {
			e.Fail("C17", "completed", "ledger", fmt.Sprintf("%s: Completed=%d Successful=%d Failed=%d, finished invocations=%d of which %d panicked", cfg, m.Completed(), m.Successful(), m.Failed(), exits, fails))
		}
		e.ntFor("C17")
		s.W.Stop()
		synctest.Wait()
		// (3) crash cuts: whatever is gone from the adapter was processed completely; a new worker on the
		// recovered adapter processes everything still held, without further prompting
		cuts := led.CutsCopy()
		e.Stat("cuts", float64(len(cuts)))
		for ci, cut := range cuts {
			at := calls[cut.After].Stamp
			for _, sq := range cut.Acked {
				i := idx(sq)
				if i < 0 {
					continue
				}
				if ex := k.Recs[i].Exit.Load(); ex == 0 || ex > at {
					e.Fail("C11", "lost-at-crash", "", fmt.Sprintf("%s: crash after adapter call %d (%s): item of job %d is no longer held by the adapter but its function had not returned (exit=%d, cut at %d)", cfg, cut.After, calls[cut.After].Kind, i, ex, at))
				}
			}
			held := len(cut.Pending) + len(cut.Unacked)
			rec := led.Recover(nil, cut)
			var ran atomic.Int32
			var rmu sync.Mutex
			seenR := map[int]int{}
			w2 := varmq.NewWorker(func(j varmq.Job[int]) {
				ran.Add(1)
				rmu.Lock()
				seenR[j.Data()]++
				rmu.Unlock()
			}, 1+ci%3)
			switch cfg.QK {
			case QPers:
				w2.WithPersistentQueue(rec.Q())
			case QPersPrio:
				w2.WithPersistentPriorityQueue(rec.PQ())
			case QDist:
				w2.WithDistributedQueue(rec.Q())
			case QDistPrio:
				w2.WithDistributedPriorityQueue(rec.PQ())
			}
			synctest.Wait()
			rp, ru, _ := rec.State()
			if int(ran.Load()) != held || rp != 0 || ru != 0 {
				e.Fail("C11", "recovery-incomplete", "", fmt.Sprintf("%s: recovery from the cut after call %d: %d of %d held items processed, adapter pending=%d unacked=%d", cfg, cut.After, ran.Load(), held, rp, ru))
			}
			for d, n := range seenR {
				if n != 1 {
					e.Fail("C11", "recovery-duplicate", "", fmt.Sprintf("%s: recovery ran job %d %d times", cfg, d, n))
				}
			}
			w2.Stop()
			synctest.Wait()
			e.Stat("recoveries", 1)
		}
	})
	if out.Kind == "hang" || out.Kind == "panic" {
		e.Fail("C11", out.Kind, blockedLibFrames(out.Stacks), cfg.String()+": "+out.Msg+"\n"+out.Stacks)
	}
	return e.Result(k.Sample(cfg.String()))
}

// failAckEffective lists the acknowledgements the adapter actually refused.
func (c ackCfg) failAckEffective(calls []LCall) []int {
	var r []int
	for i, cl := range calls {
		if cl.Kind == "ack-fail" {
			r = append(r, i)
		}
	}
	return r
}

// --- C13 ----------------------------------------------------------------------------------

type distCfg struct {
	Prio      bool
	Consumers []int // concurrency of each consumer
	BindAfter []int // number of entries stored before consumer i binds
	N         int
	Mode      []int // per entry: 0 DistributedQueue.Add, 1 raw Enqueue on the adapter
	Work      []time.Duration
	Async     bool
	Gated     bool
	SlowSub   bool  // Subscribe takes virtual time
	FailDeq   []int // transient refusals of the k-th dequeue call
	Bad       int   // malformed entries stored before the first consumer binds
}

func (c distCfg) String() string {
	return fmt.Sprintf("dist prio=%v consumers=%v bindAfter=%v n=%d async=%v gated=%v slowSub=%v failDeq=%v bad=%d", c.Prio, c.Consumers, c.BindAfter, c.N, c.Async, c.Gated, c.SlowSub, c.FailDeq, c.Bad)
}

func drawDist(r *Rng) distCfg {
	c := distCfg{Prio: r.Bool(), N: 2 + r.Intn(14), Async: r.Chance(50), Gated: r.Chance(30), SlowSub: r.Chance(35)}
	if r.Chance(30) {
		c.FailDeq = append(c.FailDeq, 1+r.Intn(c.N))
	}
	if r.Chance(25) {
		c.Bad = 1 + r.Intn(2)
	}
	nc := 1 + r.Intn(4)
	for i := 0; i < nc; i++ {
		c.Consumers = append(c.Consumers, Pick(r, 1, 1, 2, 3, 8))
		c.BindAfter = append(c.BindAfter, Pick(r, 0, 0, r.Intn(c.N)))
	}
	if r.Chance(25) {
		// every consumer binds to a backlog and nothing is announced afterwards
		for i := range c.BindAfter {
			c.BindAfter[i] = c.N
		}
	}
	sort.Ints(c.BindAfter)
	for i := 0; i < c.N; i++ {
		c.Mode = append(c.Mode, r.Intn(2))
		c.Work = append(c.Work, Pick(r, 0, time.Microsecond, 5*time.Microsecond))
	}
	return c
}

func epDist(c *RunCtx, cfg distCfg) *Result {
	e := NewEnv(c.Prop)
	k := NewKit(e, cfg.N)
	ranOn := make([]atomic.Int32, cfg.N) // consumer+1 that ran the job
	out := RunBubble(c.T, func(bid string) {
		led := NewLedger(e, cfg.Prio)
		led.Async = cfg.Async
		if cfg.SlowSub {
			led.SubDelay = 20 * time.Microsecond
		}
		for _, x := range cfg.FailDeq {
			led.FailDeq[x] = true
		}
		for i := 0; i < cfg.Bad; i++ {
			led.Preload([]byte("{malformed"), 0)
		}
		var gate chan struct{}
		if cfg.Gated {
			gate = make(chan struct{})
		}
		for i, r := range k.Recs {
			r.Work = cfg.Work[i]
			r.Gate = gate
		}
		var workers []varmq.IWorkerBinder[int]
		notifAtBind := make([]int, len(cfg.Consumers))
		bindConsumer := func(ci int) {
			w := varmq.NewWorker(func(j varmq.Job[int]) {
				d := j.Data()
				if d >= 0 && d < cfg.N {
					if prev := ranOn[d].Swap(int32(ci + 1)); prev != 0 {
						e.Fail("C13", "ran-on-two-consumers", "", fmt.Sprintf("%s: item %d ran on consumer %d and on consumer %d", cfg, d, prev-1, ci))
					}
				}
				o := k.Work(j)
				if o.Panic != nil {
					panic(o.Panic)
				}
			}, cfg.Consumers[ci])
			if cfg.Prio {
				w.WithDistributedPriorityQueue(led.PQ())
			} else {
				w.WithDistributedQueue(led.Q())
			}
			workers = append(workers, w)
			notifAtBind[ci] = 0
		}
		prod := varmq.NewDistributedQueue[int](led.Q())
		pprod := varmq.NewDistributedPriorityQueue[int](led.PQ())
		bound := 0
		perSubNotifs := make([]int, len(cfg.Consumers))
		for i := 0; i < cfg.N; i++ {
			for bound < len(cfg.Consumers) && cfg.BindAfter[bound] <= i {
				bindConsumer(bound)
				bound++
				synctest.Wait() // Subscribe has returned and the initial drain is under way
			}
			k.Recs[i].Submitted, k.Recs[i].OK = true, true
			k.Recs[i].AddCall = e.Ev(fmt.Sprintf("put%d", i))
			ok := true
			switch {
			case cfg.Mode[i] == 0 && cfg.Prio:
				ok = pprod.Add(i, i%3)
			case cfg.Mode[i] == 0:
				ok = prod.Add(i)
			case cfg.Prio:
				ok = led.PQ().Enqueue(entryBytes(i), i%3)
			default:
				ok = led.Q().Enqueue(entryBytes(i))
			}
			if !ok {
				e.Fail("C13", "put-refused", "", fmt.Sprintf("entry %d refused", i))
			}
			for s := 0; s < bound; s++ {
				perSubNotifs[s]++
			}
		}
		for bound < len(cfg.Consumers) {
			bindConsumer(bound)
			bound++
		}
		synctest.Wait()
		if cfg.Gated {
			// saturated consumers hold their jobs while further items were announced
			inflight := k.InFlight()
			capTotal := 0
			for _, cc := range cfg.Consumers {
				capTotal += cc
			}
			if want := min(cfg.N, capTotal); inflight != want && len(cfg.FailDeq) == 0 {
				e.Fail("C13", "not-saturated", "", fmt.Sprintf("%s: %d items executing at the gated quiescent point, expected min(items, total capacity)=%d", cfg, inflight, want))
				e.Fail("C03", "no-progress-at-quiescence", "distributed", fmt.Sprintf("%s: %d executing, want %d", cfg, inflight, want))
			}
			close(gate)
		}
		var total time.Duration
		for _, w := range cfg.Work {
			total += w
		}
		time.Sleep(2*total + 100*time.Microsecond)
		synctest.Wait()
		p, u, a := led.State()
		if p != 0 || u != cfg.Bad || a != cfg.N {
			e.Fail("C13", "not-drained", "", fmt.Sprintf("%s: shared adapter pending=%d unacked=%d acked=%d at quiescence, want 0/%d/%d", cfg, p, u, a, cfg.Bad, cfg.N))
		}
		used := map[int32]bool{}
		for i, r := range k.Recs {
			if n := r.Runs.Load(); n != 1 {
				e.Fail("C13", "not-exactly-once", "", fmt.Sprintf("%s: item %d ran %d times across the consumers", cfg, i, n))
			}
			used[ranOn[i].Load()] = true
		}
		if len(used) >= 2 {
			e.Nontrivial()
		}
		for ci, w := range workers {
			if got := int(w.Metrics().Submitted()); got != perSubNotifs[ci] {
				e.Fail("C13", "submitted-vs-notifications", "", fmt.Sprintf("%s: consumer %d Submitted=%d, notifications delivered to it %d", cfg, ci, got, perSubNotifs[ci]))
			}
		}
		for _, pr := range led.ProblemsCopy() {
			e.Fail("C11", "bad-ack", "dist", cfg.String()+": "+pr)
		}
		for _, w := range workers {
			w.Stop()
		}
		synctest.Wait()
	})
	if out.Kind == "hang" || out.Kind == "panic" {
		e.Fail("C13", out.Kind, blockedLibFrames(out.Stacks), cfg.String()+": "+out.Msg+"\n"+out.Stacks)
	}
	return e.Result(k.Sample(cfg.String()))
}

var ledgerFuncs = []string{"processNextJob", "goEventLoop", "handleQueueSubscription", "notifyToPullNextJobs", "job.Close", "job.ack", "setAckId", "initPoolNode", "WithDistributed", "WithPersistent", "start", "freePoolNode", "sendToNextChannel", "parseToJob", "Add"}

func runC11(c *RunCtx) {
	// several acknowledging adapters behind one worker, with refused dequeues: every delivery is acknowledged on its own adapter
	stratAdapterPrograms(c, 160, 1200)
	// entries that are dropped without being processed (undecodable, foreign) must not be acknowledged
	for v := 0; v < c.Q(120, 1200); v++ {
		c.Program(fmt.Sprintf("bad/%d", v), func(p *Prog) {
			r := p.Rng
			cfg := badCfg{Prio: r.Bool(), Dist: r.Bool(), Paced: r.Bool()}
			for i := 0; i < 1+r.Intn(7); i++ {
				if r.Chance(40) {
					cfg.Slots = append(cfg.Slots, 1+r.Intn(len(badKinds)-1))
				} else {
					cfg.Slots = append(cfg.Slots, 0)
				}
			}
			p.Explore(func(pl Plan) *Result { return epBadEntries(c, cfg) }, ExploreOpts{Base: 1})
		})
	}
	for v := 0; v < c.Q(64, 400); v++ {
		c.Program(fmt.Sprintf("ack/%d", v), func(p *Prog) {
			cfg := drawAck(p.Rng)
			p.Explore(func(pl Plan) *Result { return epAck(c, cfg) },
				ExploreOpts{Base: 2, Noise: c.Q(8, 40), K: c.Q(2, 4), Funcs: anchoredOr(c, ledgerFuncs), Pairs: c.Q(6, 60), MaxCases: c.Q(60, 1500)})
		})
	}
}

func runC13(c *RunCtx) {
	notifyProgramsK(c, 32, 160, true)
	// further distributed queues are bound to a consumer that is draining, under every strategy
	bindStormPrograms(c, 32, 160, true)
	for v := 0; v < c.Q(96, 600); v++ {
		c.Program(fmt.Sprintf("dist/%d", v), func(p *Prog) {
			cfg := drawDist(p.Rng)
			p.Explore(func(pl Plan) *Result { return epDist(c, cfg) },
				ExploreOpts{Base: 3, Noise: c.Q(15, 80), K: c.Q(2, 4), Funcs: anchoredOr(c, ledgerFuncs), Pairs: c.Q(10, 80), MaxCases: c.Q(100, 2000)})
		})
	}
}
