package vharness

// Ledger: a recording adapter for persistent / distributed queues (plain and priority).
// It models an external store that keeps delivered-but-unacknowledged items and redelivers
// them after a restart. Every adapter call is logged with a logical timestamp; durable state
// is snapshotted after every mutating call (crash cuts); faults are injected by call index.

import (
	"fmt"
	"sort"
	"sync"
	"time"
)

type lItem struct {
	Seq   int
	Bytes []byte
	Prio  int
	Raw   any // non-[]byte entries injected by C12
}

type LCall struct {
	Kind  string // enq, enq-fail, deq, deq-empty, deq-fail, ack, ack-bad, ack-fail, purge, close, sub, len
	Stamp int64
	Item  int    // item seq (-1 if none)
	AckID string // for deq / ack
}

type Cut struct {
	After   int   // index of the call after which the cut was taken
	Pending []int // item seqs in delivery order
	Unacked []int
	Acked   []int
}

type Ledger struct {
	env  *Env
	mu   sync.Mutex
	prio bool

	pending []*lItem
	unacked map[string]*lItem
	ackedID map[string]bool
	acked   []int
	items   map[int]*lItem
	nextAck int
	nextSeq int
	subs    []func(string)
	closed  bool

	Calls    []LCall
	Problems []string
	Cuts     []Cut
	KeepCuts bool
	Async    bool // deliver notifications from fresh goroutines

	FailEnq map[int]bool // the k-th (1-based) call of that kind is refused
	FailDeq map[int]bool
	FailAck map[int]bool
	nEnq    int
	nDeq    int
	nAck    int
	Notifs  int

	// Hold, if non-nil, parks the next successful dequeue call after it has taken its item until the
	// channel is closed; Held reports that a call is parked there. Used to create a quiescent point in
	// the middle of a dispatch.
	Hold chan struct{}
	Held bool

	// SubDelay makes Subscribe take (virtual) time, as a broker round trip would
	SubDelay time.Duration

	// Retain keeps the byte slice handed to Enqueue as it is (an in-memory store would) instead of
	// copying it: whatever the caller later does to that memory shows in the stored entry
	Retain bool
}

func NewLedger(env *Env, prio bool) *Ledger {
	return &Ledger{env: env, prio: prio, unacked: map[string]*lItem{}, ackedID: map[string]bool{}, items: map[int]*lItem{},
		FailEnq: map[int]bool{}, FailDeq: map[int]bool{}, FailAck: map[int]bool{}}
}

func (l *Ledger) stamp() int64 {
	if l.env != nil {
		return l.env.Tick()
	}
	return 0
}

func (l *Ledger) logCall(kind string, item int, ack string) {
	l.Calls = append(l.Calls, LCall{Kind: kind, Stamp: l.stamp(), Item: item, AckID: ack})
}

func (l *Ledger) cut() {
	if !l.KeepCuts {
		return
	}
	c := Cut{After: len(l.Calls) - 1}
	for _, it := range l.pending {
		c.Pending = append(c.Pending, it.Seq)
	}
	for _, it := range l.unacked {
		c.Unacked = append(c.Unacked, it.Seq)
	}
	sort.Ints(c.Unacked)
	c.Acked = append([]int(nil), l.acked...)
	l.Cuts = append(l.Cuts, c)
}

func (l *Ledger) insert(it *lItem) {
	if !l.prio {
		l.pending = append(l.pending, it)
		return
	}
	// stable insert by (prio, seq)
	i := sort.Search(len(l.pending), func(i int) bool {
		p := l.pending[i]
		return p.Prio > it.Prio || (p.Prio == it.Prio && p.Seq > it.Seq)
	})
	l.pending = append(l.pending, nil)
	copy(l.pending[i+1:], l.pending[i:])
	l.pending[i] = it
}

func (l *Ledger) enqueue(item any, prio int) bool {
	l.mu.Lock()
	l.nEnq++
	if l.closed || l.FailEnq[l.nEnq] {
		l.logCall("enq-fail", -1, "")
		l.mu.Unlock()
		return false
	}
	it := &lItem{Seq: l.nextSeq, Prio: prio}
	l.nextSeq++
	if b, ok := item.([]byte); ok {
		if l.Retain {
			it.Bytes = b
		} else {
			it.Bytes = append([]byte(nil), b...)
		}
	} else {
		it.Raw = item
	}
	l.items[it.Seq] = it
	l.insert(it)
	l.logCall("enq", it.Seq, "")
	l.cut()
	subs := append([]func(string){}, l.subs...)
	async := l.Async
	l.Notifs += len(subs)
	l.mu.Unlock()
	for _, s := range subs {
		if async {
			go s("enqueued")
		} else {
			s("enqueued")
		}
	}
	return true
}

// Preload places an entry directly into the store (as another process would have), without notification.
func (l *Ledger) Preload(item any, prio int) int {
	l.mu.Lock()
	defer l.mu.Unlock()
	it := &lItem{Seq: l.nextSeq, Prio: prio}
	l.nextSeq++
	if b, ok := item.([]byte); ok {
		it.Bytes = append([]byte(nil), b...)
	} else {
		it.Raw = item
	}
	l.items[it.Seq] = it
	l.insert(it)
	l.logCall("preload", it.Seq, "")
	l.cut()
	return it.Seq
}

func (l *Ledger) dequeueAck() (any, bool, string) {
	l.mu.Lock()
	defer l.mu.Unlock()
	l.nDeq++
	if l.FailDeq[l.nDeq] {
		l.logCall("deq-fail", -1, "")
		return nil, false, ""
	}
	if len(l.pending) == 0 {
		l.logCall("deq-empty", -1, "")
		return nil, false, ""
	}
	it := l.pending[0]
	l.pending = l.pending[1:]
	l.nextAck++
	id := fmt.Sprintf("ack-%d", l.nextAck)
	l.unacked[id] = it
	l.logCall("deq", it.Seq, id)
	l.cut()
	if h := l.Hold; h != nil {
		// park with the item already taken (delivered, unacknowledged) and not yet handed to the caller
		l.Hold = nil
		l.Held = true
		l.mu.Unlock()
		<-h
		l.mu.Lock()
		l.Held = false
	}
	if it.Raw != nil {
		return it.Raw, true, id
	}
	return append([]byte(nil), it.Bytes...), true, id
}

func (l *Ledger) acknowledge(id string) bool {
	l.mu.Lock()
	defer l.mu.Unlock()
	l.nAck++
	it, ok := l.unacked[id]
	if !ok {
		if l.ackedID[id] {
			l.Problems = append(l.Problems, "double-ack "+id)
		} else {
			l.Problems = append(l.Problems, "unknown-ack "+id)
		}
		l.logCall("ack-bad", -1, id)
		return false
	}
	if l.FailAck[l.nAck] {
		l.logCall("ack-fail", it.Seq, id)
		return false
	}
	delete(l.unacked, id)
	l.ackedID[id] = true
	l.acked = append(l.acked, it.Seq)
	l.logCall("ack", it.Seq, id)
	l.cut()
	return true
}

func (l *Ledger) length() int {
	l.mu.Lock()
	defer l.mu.Unlock()
	return len(l.pending)
}

func (l *Ledger) values() []any {
	l.mu.Lock()
	defer l.mu.Unlock()
	var r []any
	for _, it := range l.pending {
		if it.Raw != nil {
			r = append(r, it.Raw)
		} else {
			r = append(r, it.Bytes)
		}
	}
	return r
}

func (l *Ledger) purge() {
	l.mu.Lock()
	l.pending = nil
	l.logCall("purge", -1, "")
	l.cut()
	l.mu.Unlock()
}

func (l *Ledger) close() error {
	l.mu.Lock()
	l.closed = true
	l.logCall("close", -1, "")
	l.mu.Unlock()
	return nil
}

func (l *Ledger) subscribe(f func(string)) {
	if l.SubDelay > 0 {
		time.Sleep(l.SubDelay)
	}
	l.mu.Lock()
	l.subs = append(l.subs, f)
	l.logCall("sub", -1, "")
	l.mu.Unlock()
}

// HoldNextDequeue arms the hold and returns the channel that releases it.
func (l *Ledger) HoldNextDequeue() chan struct{} {
	l.mu.Lock()
	defer l.mu.Unlock()
	h := make(chan struct{})
	l.Hold = h
	return h
}

func (l *Ledger) IsHeld() bool {
	l.mu.Lock()
	defer l.mu.Unlock()
	return l.Held
}

// Disarm removes a hold nobody ran into.
func (l *Ledger) Disarm() {
	l.mu.Lock()
	l.Hold = nil
	l.mu.Unlock()
}

// Snapshot accessors (call at quiescence)

func (l *Ledger) State() (pending, unacked, acked int) {
	l.mu.Lock()
	defer l.mu.Unlock()
	return len(l.pending), len(l.unacked), len(l.acked)
}

func (l *Ledger) CallsCopy() []LCall {
	l.mu.Lock()
	defer l.mu.Unlock()
	return append([]LCall(nil), l.Calls...)
}

func (l *Ledger) ProblemsCopy() []string {
	l.mu.Lock()
	defer l.mu.Unlock()
	return append([]string(nil), l.Problems...)
}

func (l *Ledger) CutsCopy() []Cut {
	l.mu.Lock()
	defer l.mu.Unlock()
	return append([]Cut(nil), l.Cuts...)
}

func (l *Ledger) ItemBytes(seq int) []byte {
	l.mu.Lock()
	defer l.mu.Unlock()
	if it := l.items[seq]; it != nil {
		return it.Bytes
	}
	return nil
}

// Recover builds the store a restarted process would find at the given cut: unacknowledged
// deliveries are pending again (ahead of the rest), acknowledged ones are gone.
func (l *Ledger) Recover(env *Env, c Cut) *Ledger {
	l.mu.Lock()
	defer l.mu.Unlock()
	r := NewLedger(env, l.prio)
	for _, s := range append(append([]int{}, c.Unacked...), c.Pending...) {
		src := l.items[s]
		it := &lItem{Seq: src.Seq, Bytes: append([]byte(nil), src.Bytes...), Prio: src.Prio, Raw: src.Raw}
		r.items[it.Seq] = it
		if r.prio {
			r.insert(it)
		} else {
			r.pending = append(r.pending, it)
		}
		if it.Seq >= r.nextSeq {
			r.nextSeq = it.Seq + 1
		}
	}
	return r
}

// the two adapter faces

type LedgerQ struct{ l *Ledger }
type LedgerPQ struct{ l *Ledger }

func (l *Ledger) Q() *LedgerQ   { return &LedgerQ{l} }
func (l *Ledger) PQ() *LedgerPQ { return &LedgerPQ{l} }

func (q *LedgerQ) Len() int                              { return q.l.length() }
func (q *LedgerQ) Enqueue(item any) bool                 { return q.l.enqueue(item, 0) }
func (q *LedgerQ) Dequeue() (any, bool)                  { v, ok, _ := q.l.dequeueAck(); return v, ok }
func (q *LedgerQ) DequeueWithAckId() (any, bool, string) { return q.l.dequeueAck() }
func (q *LedgerQ) Acknowledge(id string) bool            { return q.l.acknowledge(id) }
func (q *LedgerQ) Values() []any                         { return q.l.values() }
func (q *LedgerQ) Purge()                                { q.l.purge() }
func (q *LedgerQ) Close() error                          { return q.l.close() }
func (q *LedgerQ) Subscribe(f func(string))              { q.l.subscribe(f) }

func (q *LedgerPQ) Len() int                              { return q.l.length() }
func (q *LedgerPQ) Enqueue(item any, prio int) bool       { return q.l.enqueue(item, prio) }
func (q *LedgerPQ) Dequeue() (any, bool)                  { v, ok, _ := q.l.dequeueAck(); return v, ok }
func (q *LedgerPQ) DequeueWithAckId() (any, bool, string) { return q.l.dequeueAck() }
func (q *LedgerPQ) Acknowledge(id string) bool            { return q.l.acknowledge(id) }
func (q *LedgerPQ) Values() []any                         { return q.l.values() }
func (q *LedgerPQ) Purge()                                { q.l.purge() }
func (q *LedgerPQ) Close() error                          { return q.l.close() }
func (q *LedgerPQ) Subscribe(f func(string))              { q.l.subscribe(f) }
