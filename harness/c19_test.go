package vharness

// C19 - data-race freedom. The verdict is the Go race detector's (this file is only compiled into
// a -race build by the driver): the programs below are concurrent client programs without any
// harness synchronisation between the clients after a start barrier, run in real time with the
// noise hook for reach; in addition the bubble families of the other properties are re-run with
// the recorder switched off (Env.Quiet), so that its mutex adds no happens-before edges.
// Reports are collected from GORACE log files by the driver (DESIGN.md §6 C19).

import (
	"context"
	"fmt"
	"os"
	"runtime"
	"strings"
	"sync"
	"sync/atomic"
	"time"

	"github.com/goptics/varmq"
	"github.com/goptics/varmq/vhook"
)

func init() { registry["C19"] = runC19 }

type raceProg struct {
	name string
	run  func(r *Rng) int // returns number of API calls made
}

// spawn starts fns behind a start barrier and waits for all of them.
func spawn(fns ...func()) {
	start := make(chan struct{})
	var wg sync.WaitGroup
	for _, f := range fns {
		wg.Add(1)
		go func() { defer wg.Done(); <-start; f() }()
	}
	close(start)
	wg.Wait()
}

// drainErrs reads a worker's error channel until the worker's Stop closes it. The call to Errs() is made
// by a client goroutine that runs next to the one that stops the worker, so on a loaded machine it can come
// after the Stop: a stopped worker has no error channel (Errs() returns nil until Restart; property C14 states
// "nil after Stop"), and a receive from a nil channel never returns - that would be the client program hanging
// itself, not the library.
func drainErrs(ch <-chan error) {
	if ch == nil {
		return
	}
	for range ch {
	}
}

func rep(n int, f func(i int)) func() {
	return func() {
		for i := 0; i < n; i++ {
			f(i)
		}
	}
}

var racePrograms = []raceProg{
	{"batch-shared-response", func(r *Rng) int {
		w := varmq.NewResultWorker(func(j varmq.Job[int]) (int, error) {
			if j.Data()%5 == 0 {
				return 0, fmt.Errorf("e%d", j.Data())
			}
			return j.Data() * 2, nil
		}, 8)
		q := w.BindQueue()
		pq := w.BindPriorityQueue()
		calls := 0
		for round := 0; round < 6; round++ {
			var items []varmq.Item[int]
			for i := 0; i < 16; i++ {
				items = append(items, varmq.Item[int]{ID: fmt.Sprint(i), Data: i, Priority: i % 3})
			}
			g := q.AddAll(items)
			g2 := pq.AddAll(items)
			spawn(func() {
				for range g.Results() {
				}
			}, func() { g2.Drain() }, func() { g.Wait(); g.NumPending() }, func() { g2.Wait() })
			calls += 40
		}
		w.WaitAndStop()
		return calls
	}},
	{"err-batch-and-singles", func(r *Rng) int {
		w := varmq.NewErrWorker(func(j varmq.Job[int]) error {
			if j.Data()%3 == 0 {
				return fmt.Errorf("e%d", j.Data())
			}
			if j.Data()%7 == 0 {
				panic("boom")
			}
			return nil
		}, 4)
		q := w.BindQueue()
		var items []varmq.Item[int]
		for i := 0; i < 24; i++ {
			items = append(items, varmq.Item[int]{ID: fmt.Sprint(i), Data: i})
		}
		g := q.AddAll(items)
		var hs []varmq.EnqueuedErrJob
		for i := 0; i < 12; i++ {
			h, _ := q.Add(i)
			hs = append(hs, h)
		}
		var fns []func()
		fns = append(fns, func() {
			for range g.Errs() {
			}
		}, func() { drainErrs(w.Errs()) })
		for _, h := range hs {
			fns = append(fns, func() { h.Err(); h.Err(); h.Status() }, func() { h.Wait(); h.IsClosed(); h.Drain() }, func() { h.Close(); h.ID() })
		}
		spawn(append(fns, func() { g.Wait(); w.WaitAndStop() })...)
		return 100
	}},
	{"reaper-busy-pool", func(r *Rng) int {
		var done atomic.Int64
		w := varmq.NewWorker(func(j varmq.Job[int]) { done.Add(1) }, 8, varmq.WithIdleWorkerExpiryDuration(50*time.Microsecond), varmq.WithMinIdleWorkerRatio(uint8(Pick(r, 1, 25, 100))))
		q := w.BindQueue()
		spawn(rep(300, func(i int) {
			for b := 0; b < 6; b++ {
				q.Add(i)
			}
			if i%10 == 0 {
				time.Sleep(120 * time.Microsecond)
			}
		}), rep(300, func(i int) { w.NumIdleWorkers(); w.NumProcessing(); runtime.Gosched() }), rep(20, func(i int) { w.TunePool(2 + i%7) }))
		w.WaitAndStop()
		return 2200
	}},
	{"restart-vs-accessors", func(r *Rng) int {
		ctx, cancel := context.WithCancel(context.Background())
		defer cancel()
		w := varmq.NewWorker(func(j varmq.Job[int]) {}, 2, varmq.WithContext(ctx), varmq.WithIdleWorkerExpiryDuration(time.Millisecond))
		q := w.BindQueue()
		spawn(rep(25, func(i int) { w.Restart() }),
			rep(200, func(i int) { w.Context(); w.Errs(); w.Status() }),
			rep(200, func(i int) { q.Add(i); w.NumPending(); w.NumIdleWorkers() }),
			rep(100, func(i int) { w.TunePool(1 + i%4); w.NumConcurrency(); w.Metrics().Completed() }),
			rep(40, func(i int) { w.Pause(); w.Resume() }))
		w.Restart()
		w.WaitAndStop()
		return 1200
	}},
	{"stop-restart-cycles", func(r *Rng) int {
		w := varmq.NewWorker(func(j varmq.Job[int]) {}, 3)
		q := w.BindPriorityQueue()
		spawn(rep(20, func(i int) { w.Stop(); w.Restart() }),
			rep(20, func(i int) { w.PauseAndWait(); w.Resume() }),
			rep(300, func(i int) { q.Add(i, i%5) }),
			rep(100, func(i int) { w.IsRunning(); w.IsPaused(); w.IsStopped(); w.NumProcessing() }))
		w.Restart()
		w.WaitAndStop()
		return 600
	}},
	{"purge-close-add", func(r *Rng) int {
		gate := make(chan struct{})
		w := varmq.NewResultWorker(func(j varmq.Job[int]) (int, error) {
			if j.Data() < 2 {
				<-gate
			}
			return j.Data(), nil
		}, 2)
		q := w.BindQueue()
		pq := w.BindPriorityQueue()
		var mu sync.Mutex
		var hs []varmq.EnqueuedResultJob[int]
		add := func(i int) {
			h, ok := q.Add(i)
			h2, ok2 := pq.Add(i, i%4)
			mu.Lock()
			if ok {
				hs = append(hs, h)
			}
			if ok2 {
				hs = append(hs, h2)
			}
			mu.Unlock()
		}
		spawn(rep(80, add), rep(80, func(i int) { add(100 + i) }),
			rep(15, func(i int) { q.Purge(); pq.Purge(); q.NumPending() }),
			rep(15, func(i int) { pq.Purge(); q.Purge(); pq.NumPending() }),
			rep(60, func(i int) {
				mu.Lock()
				var h varmq.EnqueuedResultJob[int]
				if len(hs) > 0 {
					h = hs[(i*7)%len(hs)]
				}
				mu.Unlock()
				if h != nil {
					h.Close()
					h.Status()
				}
			}),
			func() { time.Sleep(200 * time.Microsecond); close(gate) })
		q.Close()
		pq.Close()
		q.Add(1)
		w.WaitAndStop()
		for _, h := range hs {
			h.Drain()
		}
		return 500
	}},
	{"barrier-callers", func(r *Rng) int {
		w := varmq.NewWorker(func(j varmq.Job[int]) { runtime.Gosched() }, 2)
		q := w.BindQueue()
		spawn(rep(200, func(i int) { q.Add(i) }), rep(200, func(i int) { q.Add(i) }),
			rep(30, func(i int) { w.WaitUntilFinished() }), rep(30, func(i int) { w.WaitUntilFinished() }),
			rep(10, func(i int) { w.PauseAndWait(); w.Resume() }))
		w.WaitAndStop()
		return 500
	}},
	{"bind-vs-add", func(r *Rng) int {
		w := varmq.NewWorker(func(j varmq.Job[int]) {}, 2, varmq.WithStrategy(varmq.Strategy(r.Intn(3))))
		q := w.BindQueue()
		spawn(rep(300, func(i int) { q.Add(i) }),
			rep(8, func(i int) {
				switch i % 4 {
				case 0:
					w.BindQueue().Add(i)
				case 1:
					w.BindPriorityQueue().Add(i, 1)
				case 2:
					w.WithPersistentQueue(NewLedger(nil, false).Q()).Add(i)
				default:
					w.WithDistributedQueue(NewLedger(nil, false).Q()).Add(i)
				}
			}),
			rep(100, func(i int) { w.NumPending() }))
		w.WaitAndStop()
		return 420
	}},
	{"ledger-consumers", func(r *Rng) int {
		led := NewLedger(nil, false)
		led.Async = r.Bool()
		mk := func() varmq.IWorkerBinder[int] {
			w := varmq.NewWorker(func(j varmq.Job[int]) {}, 2)
			w.WithDistributedQueue(led.Q())
			return w
		}
		w1, w2 := mk(), mk()
		p := varmq.NewDistributedQueue[int](led.Q())
		spawn(rep(150, func(i int) { p.Add(i) }), rep(150, func(i int) { p.Add(1000+i, varmq.WithJobId(fmt.Sprint(i))) }),
			rep(100, func(i int) { w1.NumPending(); w2.Metrics().Submitted(); p.NumPending() }),
			func() { drainErrs(w1.Errs()) }, func() { time.Sleep(2 * time.Millisecond); w1.WaitAndStop() })
		w2.WaitAndStop()
		return 500
	}},
	{"shared-handle-readers", func(r *Rng) int {
		// several goroutines read the outcome of the SAME handle at the same time, before and after it exists
		gate := make(chan struct{})
		rw := varmq.NewResultWorker(func(j varmq.Job[int]) (int, error) {
			<-gate
			if j.Data()%3 == 0 {
				return 0, errBoom
			}
			return j.Data(), nil
		}, 4)
		ew := varmq.NewErrWorker(func(j varmq.Job[int]) error {
			<-gate
			if j.Data()%2 == 0 {
				return errBoom
			}
			return nil
		}, 4)
		rq, eq := rw.BindQueue(), ew.BindPriorityQueue()
		var rhs []varmq.EnqueuedResultJob[int]
		var ehs []varmq.EnqueuedErrJob
		for i := 0; i < 12; i++ {
			if h, ok := rq.Add(i); ok {
				rhs = append(rhs, h)
			}
			if h, ok := eq.Add(i, i%3); ok {
				ehs = append(ehs, h)
			}
		}
		reader := func() {
			for i := range rhs {
				rhs[i].Result()
				ehs[i].Err()
				rhs[i].Status()
			}
			for i := range rhs {
				rhs[i].Result()
				ehs[i].Err()
			}
		}
		spawn(reader, reader, reader, func() { rhs[0].Wait(); ehs[0].Wait() }, func() { runtime.Gosched(); close(gate) })
		rw.WaitAndStop()
		ew.WaitAndStop()
		return 200
	}},
	{"metrics-reset", func(r *Rng) int {
		// every method of Metrics, Reset included, while jobs are submitted, complete and fail
		w := varmq.NewErrWorker(func(j varmq.Job[int]) error {
			if j.Data()%5 == 0 {
				return errBoom
			}
			return nil
		}, 4)
		q := w.BindQueue()
		pq := w.BindPriorityQueue()
		m := w.Metrics()
		spawn(rep(300, func(i int) { q.Add(i) }), rep(300, func(i int) { pq.Add(i, i%3) }),
			rep(40, func(i int) { q.AddAll([]varmq.Item[int]{{Data: i}, {Data: i + 1}}).Drain() }),
			rep(120, func(i int) { m.Reset(); runtime.Gosched() }),
			rep(300, func(i int) { m.Submitted(); m.Completed(); m.Successful(); m.Failed() }),
			rep(100, func(i int) { w.Metrics().Completed(); w.NumPending(); w.NumProcessing() }))
		w.WaitAndStop()
		return 1200
	}},
	{"segment-boundary-backlog", func(r *Rng) int {
		// a backlog that grows across the FIFO's segment boundaries (1024, 2560, ...) from several producers
		// while it is read, purged and drained
		w := varmq.NewWorker(func(j varmq.Job[int]) {}, 2)
		q := w.BindQueue()
		w.Pause()
		n := []int{1100, 1300, 2700}[r.Intn(3)]
		spawn(rep(n/4, func(i int) { q.Add(i) }), rep(n/4, func(i int) { q.Add(i) }), rep(n/4, func(i int) { q.Add(i) }),
			rep(n/8, func(i int) { q.AddAll([]varmq.Item[int]{{Data: i}, {Data: i}}) }),
			rep(200, func(i int) { q.NumPending(); w.NumPending() }),
			func() {
				for q.NumPending() < 1000 {
					runtime.Gosched()
				}
				q.Purge()
			})
		spawn(rep(n/2, func(i int) { q.Add(i) }), rep(n/2, func(i int) { q.Add(i) }), func() { w.Resume() },
			rep(20, func(i int) { q.NumPending() }))
		w.WaitAndStop()
		return 2*n + 300
	}},
	{"tune-under-load", func(r *Rng) int {
		w := varmq.NewErrWorker(func(j varmq.Job[int]) error { runtime.Gosched(); return nil }, 4, varmq.WithMinIdleWorkerRatio(50))
		q := w.BindQueue()
		spawn(rep(400, func(i int) { q.Add(i) }), rep(60, func(i int) { w.TunePool(1 + (i*3)%9) }),
			rep(200, func(i int) { w.NumIdleWorkers(); w.NumConcurrency(); w.NumProcessing() }))
		w.WaitAndStop()
		return 660
	}},
	{"context-cancel", func(r *Rng) int {
		ctx, cancel := context.WithCancel(context.Background())
		w := varmq.NewWorker(func(j varmq.Job[int]) {}, 2, varmq.WithContext(ctx))
		q := w.BindQueue()
		spawn(rep(200, func(i int) { q.Add(i) }), func() { time.Sleep(50 * time.Microsecond); cancel() },
			rep(100, func(i int) { w.Status(); w.Context(); w.Errs() }), rep(5, func(i int) { w.Restart() }))
		w.Stop()
		return 300
	}},
}

// raceDeadline is a generous wall-clock bound for one real-time client program (normally well under a
// second); reaching it is never a verdict on the property, only "inconclusive", with the parked stacks.
var raceDeadline = 10 * time.Minute

func epRace(c *RunCtx, pi int, seed uint64, procs int) *Result {
	if v := os.Getenv("VH_RACE_DEADLINE"); v != "" {
		if d, err := time.ParseDuration(v); err == nil {
			raceDeadline = d
		}
	}
	e := NewEnv(c.Prop)
	p := racePrograms[pi]
	r := &Rng{s: seed | 1}
	old := runtime.GOMAXPROCS(procs)
	vhook.Configure(2600, 200, 60, seed|1) // ~4% Gosched, ~0.3% sleeps up to 60us
	vhook.SetMode(vhook.Noise)
	done := make(chan int, 1)
	go func() { done <- p.run(r) }()
	select {
	case n := <-done:
		e.Stat("api_calls", float64(n))
		e.Nontrivial()
	case <-time.After(raceDeadline):
		// a real-time hang: not this property's verdict; reported as inconclusive (the child is then killed by the driver)
		vhook.SetMode(vhook.Off)
		runtime.GOMAXPROCS(old)
		res := e.Result(nil)
		var parked []string
		for _, g := range allStacks("") {
			if strings.Contains(g, modPath) || strings.Contains(g, "vharness.") {
				if len(g) > 900 {
					g = g[:900]
				}
				parked = append(parked, g)
			}
		}
		if len(parked) > 14 {
			parked = parked[:14]
		}
		res.Inc = "race program " + p.name + " did not finish within " + raceDeadline.String() + "\n" + strings.Join(parked, "\n\n")
		return res
	}
	vhook.SetMode(vhook.Off)
	runtime.GOMAXPROCS(old)
	res := e.Result(map[string]any{"program": p.name, "gomaxprocs": procs})
	res.Sig = fmt.Sprintf("%s/%d/%x", p.name, procs, seed)
	return res
}

func runC19(c *RunCtx) {
	quiet = true
	for pi := range racePrograms {
		for v := 0; v < c.Q(6, 60); v++ {
			pi, v := pi, v
			c.Program(fmt.Sprintf("race/%s/%d", racePrograms[pi].name, v), func(p *Prog) {
				seed := p.Rng.Next()
				procs := []int{16, 4, 2, 1, 16, 8}[v%6]
				p.Case(map[string]any{"seed": seed, "procs": procs}, func() *Result { return epRace(c, pi, seed, procs) })
			})
		}
	}
	// reach: the behavioural families as client programs, recorder off
	o := ExploreOpts{Base: 2, K: 1, Funcs: dispatchFuncs, Pairs: c.Q(4, 30), MaxCases: c.Q(20, 200)}
	richPrograms(c, "rich", 24, 200, richBias{MaxJobs: 8, Cancel: 25, Purge: 20, Script: 4, Batches: 40, Waiters: 2, Samplers: true, Outcomes: true, Expiry: 40}, o)
	richPrograms(c, "restarts", 12, 100, richBias{MaxJobs: 8, Script: 8, Samplers: true, Conc: []int{1, 2, 3}, RestartHeavy: true}, o)
	gatePrograms(c, "gate", 12, 100, gateBias{Adapters: true, MaxOps: 12, Expiry: 30, Tune: true, Life: true}, o)
	reaperPrograms(c, 8, 60)
	raceOpts = &o
	tuneStormPrograms(c, 8, 60)
	bindStormPrograms(c, 8, 60)
	cyclesPrograms(c, 8, 60)
	raceOpts = nil
	richPrograms(c, "rich-ctx", 8, 60, richBias{MaxJobs: 6, Cancel: 10, Script: 6, Expiry: 30, RestartHeavy: true, Ctx: 100}, o)
	for v := 0; v < c.Q(12, 100); v++ {
		c.Program(fmt.Sprintf("batch/%d", v), func(p *Prog) {
			cfg := drawBatch(p.Rng, false)
			p.Explore(func(pl Plan) *Result { return epBatch(c, cfg) }, o)
		})
	}
	for v := 0; v < c.Q(12, 100); v++ {
		c.Program(fmt.Sprintf("dist/%d", v), func(p *Prog) {
			cfg := drawDist(p.Rng)
			p.Explore(func(pl Plan) *Result { return epDist(c, cfg) }, o)
		})
	}
}
