package vharness

// C06 - worker-level barriers are exact: WaitUntilFinished / PauseAndWait / Stop / WaitAndStop.
// Oracles use only logical stamps recorded at the client boundary (DESIGN.md §6 C06).

import (
	"context"
	"fmt"
	"strings"
	"sync"
	"sync/atomic"
	"testing/synctest"
	"time"

	"github.com/goptics/varmq"
)

func init() { registry["C06"] = runC06 }

var c06Funcs = []string{"processNextJob", "releaseWaiters", "WaitUntilFinished", "goEventLoop", "initPoolNode", "freePoolNode",
	"sendToNextChannel", "notifyToPullNextJobs", "Pause", "Stop", "PauseAndWait", "WaitAndStop", "Restart", "Resume",
	"queue.Add", "Queue.Add", "Purge", "Close", "changeStatus", "markClosed", "Dequeue", "Enqueue", "Manager.Len", "Queue.Len", "Node.Serve", "Node.Send"}

type c06Cfg struct {
	Fam      string
	WK       WK
	QK       QK
	Conc     int
	Expiry   time.Duration
	NJobs    int
	Prods    int
	Cancel   []bool
	Work     []time.Duration
	JoinProd bool   // call the barrier only after all producers returned
	Barrier  string // WaitUntilFinished, PauseAndWait, Stop, WaitAndStop
	Callers  int    // concurrent barrier callers
	Purge    bool
	Ctx      bool   // the worker is configured with a context that is cancelled while the barrier callers run
	Mixed    string // Pause or Stop: another goroutine makes that call while the barrier callers run
}

func (c c06Cfg) String() string {
	return fmt.Sprintf("%s wk=%v qk=%v conc=%d exp=%v jobs=%d prods=%d cancel=%v join=%v barrier=%s callers=%d purge=%v ctx=%v mixed=%s",
		c.Fam, c.WK, c.QK, c.Conc, c.Expiry, c.NJobs, c.Prods, c.Cancel, c.JoinProd, c.Barrier, c.Callers, c.Purge, c.Ctx, c.Mixed)
}

func drawC06(r *Rng, fam string) c06Cfg {
	c := c06Cfg{Fam: fam}
	c.WK = Pick(r, WPlain, WErr, WResult)
	c.QK = Pick(r, QFifo, QPrio)
	c.Conc = Pick(r, 1, 1, 2, 2, 3, 8)
	if r.Chance(20) {
		c.Expiry = Pick(r, time.Millisecond, 10*time.Millisecond)
	}
	c.NJobs = 1 + r.Intn(6)
	c.Prods = 1 + r.Intn(min(c.NJobs, 3))
	c.Cancel = make([]bool, c.NJobs)
	c.Work = make([]time.Duration, c.NJobs)
	for i := range c.Cancel {
		c.Cancel[i] = r.Chance(20)
		c.Work[i] = Pick(r, 0, 0, time.Microsecond, 50*time.Microsecond)
	}
	c.JoinProd = r.Chance(60)
	c.Callers = Pick(r, 1, 1, 1, 2)
	switch fam {
	case "wuf":
		c.Barrier = "WaitUntilFinished"
		c.Purge = r.Chance(15)
	case "barrier":
		c.Barrier = Pick(r, "PauseAndWait", "Stop", "WaitAndStop")
		// several callers of the same barrier: each of them must wait for the executing functions
		c.Callers = Pick(r, 1, 1, 2, 3)
	}
	return c
}

// hangFail records a hang of a client call with the parked library frames as discriminator.
func hangFail(e *Env, prop, what, bid string) {
	st := allStacks(bid)
	if len(st) > 30 {
		st = st[:30]
	}
	stacks := strings.Join(st, "\n\n")
	e.Fail(prop, "hang", what+"/"+blockedLibFrames(stacks), what+" did not return although nothing else could run (virtual deadline reached)\n"+stacks)
}

func epC06(c *RunCtx, cfg c06Cfg) *Result {
	e := NewEnv(c.Prop)
	k := NewKit(e, cfg.NJobs)
	for i, r := range k.Recs {
		r.Work = cfg.Work[i]
	}
	var barriers []*CtlRec
	var bmu sync.Mutex
	out := RunBubble(c.T, func(bid string) {
		var wcfg []any
		wcfg = append(wcfg, cfg.Conc)
		if cfg.Expiry > 0 {
			wcfg = append(wcfg, varmqExpiry(cfg.Expiry))
		}
		var cancel context.CancelFunc
		if cfg.Ctx {
			var ctx context.Context
			ctx, cancel = context.WithCancel(context.Background())
			defer cancel()
			wcfg = append(wcfg, varmq.WithContext(ctx))
		}
		s := NewSubject(cfg.WK, k.Work, wcfg...)
		q := s.Bind(cfg.QK, nil)
		var wg sync.WaitGroup
		for p := 0; p < cfg.Prods; p++ {
			wg.Add(1)
			go func(p int) {
				defer wg.Done()
				for i := p; i < cfg.NJobs; i += cfg.Prods {
					k.Add(q, i)
					if cfg.Cancel[i] {
						k.Close(i)
					}
				}
			}(p)
		}
		if cfg.JoinProd {
			wg.Wait()
		}
		if cfg.Purge {
			wg.Add(1)
			go func() {
				defer wg.Done()
				k.Call("Purge", 0, func() error { q.Base.Purge(); return nil })
			}()
		}
		// barrier callers
		var bw sync.WaitGroup
		if cfg.Ctx {
			// the context listener stops the worker while the barrier callers are on their way
			bw.Add(1)
			go func() {
				defer bw.Done()
				k.Call("CtxCancel", 0, func() error { cancel(); return nil })
			}()
		}
		if cfg.Mixed != "" {
			bw.Add(1)
			go func() {
				defer bw.Done()
				k.Control(s.W, cfg.Mixed, 0)
			}()
		}
		for b := 0; b < cfg.Callers; b++ {
			bw.Add(1)
			go func() {
				defer bw.Done()
				r := k.Control(s.W, cfg.Barrier, 0)
				bmu.Lock()
				barriers = append(barriers, r)
				bmu.Unlock()
			}()
		}
		if !k.Await(bw.Wait) {
			hangFail(e, "C06", cfg.Barrier, bid)
			return
		}
		if !k.Await(wg.Wait) {
			hangFail(e, "C03", "producers", bid)
			return
		}
		// bring the worker back and drain, so that every episode ends at rest
		switch {
		case cfg.Ctx:
			// the cancelled worker stays stopped; whatever is pending stays pending
		case cfg.Barrier == "Stop" || cfg.Barrier == "WaitAndStop" || cfg.Mixed == "Stop":
			k.Control(s.W, "Restart", 0)
		case cfg.Barrier == "PauseAndWait" || cfg.Mixed == "Pause":
			k.Control(s.W, "Resume", 0)
		}
		if !k.Await(func() { k.Control(s.W, "WaitUntilFinished", 0) }) {
			hangFail(e, "C06", "WaitUntilFinished(final)", bid)
			return
		}
		synctest.Wait()
		if !k.Await(func() { k.Control(s.W, "Stop", 0) }) {
			hangFail(e, "C06", "Stop(final)", bid)
			return
		}
		synctest.Wait()
	})
	if out.Kind == "hang" {
		open := strings.Join(k.OpenCalls(), ",")
		e.Fail("C06", "hang", "deadlock/"+open+"/"+blockedLibFrames(out.Stacks), "bubble deadlock with open calls ["+open+"]: "+out.Msg+"\n"+out.Stacks)
	} else if out.Kind == "leak" {
		e.Stat("leaks", 1)
	} else if out.Kind == "panic" {
		e.Fail("C06", "harness-panic", "", out.Msg+"\n"+out.Stacks)
	}
	if !e.Failed() {
		checkBarriers(e, k, barriers, cfg)
	}
	return e.Result(k.Sample(cfg.String()))
}

// checkBarriers evaluates the C06 safety oracle from the stamps, after everything was joined.
func checkBarriers(e *Env, k *Kit, barriers []*CtlRec, cfg c06Cfg) {
	ctl := k.CtlCopy()
	var purgeCall int64
	for _, c := range ctl {
		if c.Kind == "Purge" {
			purgeCall = c.Call
		}
	}
	// the final WaitUntilFinished (single caller, worker running, producers joined) is a barrier too
	all := append([]*CtlRec{}, barriers...)
	for i := range ctl {
		c := ctl[i]
		if c.Kind == "WaitUntilFinished" && c.Ret != 0 {
			dup := false
			for _, b := range barriers {
				if b.Call == c.Call {
					dup = true
				}
			}
			if !dup {
				all = append(all, &c)
			}
		}
	}
	for _, b := range all {
		if b.Ret == 0 {
			continue
		}
		for _, r := range k.Recs {
			en, ex := r.Enter.Load(), r.Exit.Load()
			// overlap => the barrier raced a dispatch or a completion (non-trivial case)
			if (en > b.Call && en < b.Ret) || (ex > b.Call && ex < b.Ret) {
				e.Nontrivial()
			}
			switch b.Kind {
			case "WaitUntilFinished":
				if !r.Submitted || !r.OK || r.AddRet == 0 || r.AddRet > b.Call {
					continue
				}
				// pending work of a paused/stopped worker is not waited for: only check calls made while Running
				if !runningThroughout(ctl, b) {
					continue
				}
				if ex != 0 && ex < b.Ret {
					continue
				}
				// excused: cancelled or purged before the barrier returned and never run
				if r.Runs.Load() == 0 && r.CloseCalled && r.CloseErr == nil && r.CloseCall < b.Ret {
					continue
				}
				if r.Runs.Load() == 0 && purgeCall != 0 && purgeCall < b.Ret && r.H != nil && r.H.Status() == "Closed" {
					continue
				}
				e.Fail("C06", "early-return", "WaitUntilFinished",
					fmt.Sprintf("job %d accepted at %d (before WaitUntilFinished.call=%d) had not finished when it returned at %d (enter=%d exit=%d runs=%d status=%v)",
						r.Idx, r.AddRet, b.Call, b.Ret, en, ex, r.Runs.Load(), statusOf(r)))
			case "PauseAndWait", "Stop", "WaitAndStop":
				if en != 0 && en < b.Ret && (ex == 0 || ex > b.Ret) {
					e.Fail("C06", "executing-at-return", b.Kind,
						fmt.Sprintf("job %d was executing (enter=%d exit=%d) when %s returned at %d", r.Idx, en, ex, b.Kind, b.Ret))
				}
			}
		}
	}
}

func statusOf(r *JobRec) string {
	if r.H == nil {
		return "-"
	}
	return r.H.Status()
}

// runningThroughout: no lifecycle call other than barriers-of-the-same-kind overlaps or precedes b
// in a way that leaves the worker not Running while b is in progress.
func runningThroughout(ctl []CtlRec, b *CtlRec) bool {
	state := "Running"
	for _, c := range ctl {
		if c.Call == b.Call {
			continue
		}
		switch c.Kind {
		case "CtxCancel":
			// from the cancellation on the worker is being stopped by its listener, asynchronously
			if c.Call < b.Ret {
				return false
			}
		case "Pause", "PauseAndWait", "Stop", "WaitAndStop", "Resume", "Restart":
			// overlapping lifecycle call: not the situation the statement describes
			if c.Call < b.Ret && (c.Ret == 0 || c.Ret > b.Call) {
				return false
			}
			if c.Ret != 0 && c.Ret < b.Call {
				switch c.Kind {
				case "Pause", "PauseAndWait":
					state = "Paused"
				case "Stop", "WaitAndStop":
					state = "Stopped"
				case "Resume", "Restart":
					state = "Running"
				}
			}
		}
	}
	return state == "Running"
}

// --- tail of cancelled jobs / purge while parked -----------------------------------------

type c06TailCfg struct {
	WK    WK
	QK    QK
	Conc  int
	NTail int
	Mode  string // cancel, purge
	Bar   string
}

func (c c06TailCfg) String() string {
	return fmt.Sprintf("tail wk=%v qk=%v conc=%d tail=%d mode=%s barrier=%s", c.WK, c.QK, c.Conc, c.NTail, c.Mode, c.Bar)
}

// epC06Tail: conc jobs gated in flight, a tail of pending jobs that get cancelled or purged, the
// barrier parks, then the gates open: the barrier must return although the last pending jobs never run.
func epC06Tail(c *RunCtx, cfg c06TailCfg) *Result {
	e := NewEnv(c.Prop)
	n := cfg.Conc + cfg.NTail
	k := NewKit(e, n)
	var bar *CtlRec
	out := RunBubble(c.T, func(bid string) {
		// channels must be created inside the bubble to count as durable blocking
		gate := make(chan struct{})
		for i := 0; i < cfg.Conc; i++ {
			k.Recs[i].Gate = gate
		}
		s := NewSubject(cfg.WK, k.Work, cfg.Conc)
		q := s.Bind(cfg.QK, nil)
		for i := 0; i < n; i++ {
			k.Add(q, i)
		}
		synctest.Wait() // conc jobs in flight, tail pending
		done := make(chan struct{})
		go func() {
			bar = k.Control(s.W, cfg.Bar, 0)
			close(done)
		}()
		synctest.Wait() // barrier parked
		var wg sync.WaitGroup
		wg.Add(2)
		go func() {
			defer wg.Done()
			if cfg.Mode == "cancel" {
				for i := cfg.Conc; i < n; i++ {
					k.Close(i)
				}
			} else {
				k.Call("Purge", 0, func() error { q.Base.Purge(); return nil })
			}
		}()
		go func() { defer wg.Done(); close(gate) }()
		if !k.Await(func() { <-done }) {
			hangFail(e, "C06", cfg.Bar+"/tail-"+cfg.Mode, bid)
			return
		}
		wg.Wait()
		e.Nontrivial()
		if cfg.Bar != "WaitUntilFinished" {
			k.Control(s.W, "Restart", 0)
		}
		if !k.Await(func() { k.Control(s.W, "WaitUntilFinished", 0) }) {
			hangFail(e, "C06", "WaitUntilFinished(final)", bid)
			return
		}
		synctest.Wait()
		k.Control(s.W, "Stop", 0)
		synctest.Wait()
	})
	if out.Kind == "hang" {
		open := strings.Join(k.OpenCalls(), ",")
		e.Fail("C06", "hang", "deadlock/"+open+"/"+blockedLibFrames(out.Stacks), "bubble deadlock with open calls ["+open+"]: "+out.Msg+"\n"+out.Stacks)
	} else if out.Kind == "panic" {
		e.Fail("C06", "harness-panic", "", out.Msg+"\n"+out.Stacks)
	}
	if !e.Failed() && bar != nil {
		checkBarriers(e, k, []*CtlRec{bar}, c06Cfg{})
	}
	return e.Result(k.Sample(cfg.String()))
}

// epWUFLoop: a tight loop of Add...; WaitUntilFinished on one worker, thousands of rounds in real
// parallel with the dispatcher: windows narrower than a statement (two loads of one expression)
// are only reachable by repetition, not by statement-level stalls.
func epWUFLoop(c *RunCtx, wk WK, qk QK, conc, rounds, per int) *Result {
	e := NewEnv(c.Prop)
	e.Quiet = true
	desc := fmt.Sprintf("wuf-loop wk=%v qk=%v conc=%d rounds=%d per=%d", wk, qk, conc, rounds, per)
	var done atomic.Int64
	early := 0
	out := RunBubble(c.T, func(bid string) {
		s := NewSubject(wk, func(j varmq.Job[int]) Outcome { done.Add(1); return Outcome{} }, conc)
		q := s.Bind(qk, nil)
		total := int64(0)
		k := NewKit(e, 0)
		for r := 0; r < rounds; r++ {
			for i := 0; i < per; i++ {
				q.Add(i, 0, "")
			}
			total += int64(per)
			if !k.Await(s.W.WaitUntilFinished) {
				e.Quiet = false
				hangFail(e, "C06", "WaitUntilFinished/loop", bid)
				return
			}
			if d := done.Load(); d != total {
				early++
				if early == 1 {
					e.Quiet = false
					e.Fail("C06", "early-return", "WaitUntilFinished", fmt.Sprintf("%s: round %d: WaitUntilFinished returned with %d of %d accepted jobs finished", desc, r, d, total))
				}
				synctest.Wait()
				total = done.Load()
			}
		}
		s.W.Stop()
		synctest.Wait()
	})
	e.Quiet = false
	if out.Kind == "hang" {
		e.Fail("C06", "hang", "loop/"+blockedLibFrames(out.Stacks), desc+": "+out.Msg+"\n"+out.Stacks)
	}
	e.Stat("wuf_loop_rounds", float64(rounds))
	e.Nontrivial()
	rr := e.Result(map[string]any{"program": desc})
	rr.Sig = fmt.Sprintf("%s-%d", desc, early)
	return rr
}

func runC06(c *RunCtx) {
	for v := 0; v < c.Q(48, 400); v++ {
		c.Program(fmt.Sprintf("wuf-loop/%d", v), func(p *Prog) {
			r := p.Rng
			wk, qk, conc, per := Pick(r, WPlain, WErr, WResult), Pick(r, QFifo, QPrio), Pick(r, 1, 1, 2, 4), Pick(r, 1, 1, 2, 3)
			p.Explore(func(pl Plan) *Result { return epWUFLoop(c, wk, qk, conc, c.Q(3000, 10000), per) }, ExploreOpts{Base: 2})
		})
	}
	funcs := c06Funcs
	if c.Thorough() {
		funcs = nil
	}
	for v := 0; v < c.Q(64, 240); v++ {
		c.Program(fmt.Sprintf("wuf/%d", v), func(p *Prog) {
			cfg := drawC06(p.Rng, "wuf")
			p.Explore(func(pl Plan) *Result { return epC06(c, cfg) },
				ExploreOpts{Base: 3, Noise: c.Q(20, 100), K: c.Q(2, 5), Funcs: funcs, Pairs: c.Q(20, 150), MaxCases: c.Q(250, 3000)})
		})
	}
	for v := 0; v < c.Q(64, 240); v++ {
		c.Program(fmt.Sprintf("barrier/%d", v), func(p *Prog) {
			cfg := drawC06(p.Rng, "barrier")
			p.Explore(func(pl Plan) *Result { return epC06(c, cfg) },
				ExploreOpts{Base: 3, Noise: c.Q(20, 100), K: c.Q(2, 5), Funcs: funcs, Pairs: c.Q(20, 150), MaxCases: c.Q(250, 3000)})
		})
	}
	for v := 0; v < c.Q(48, 200); v++ {
		c.Program(fmt.Sprintf("ctx-barrier/%d", v), func(p *Prog) {
			cfg := drawC06(p.Rng, Pick(p.Rng, "barrier", "barrier", "wuf"))
			cfg.Ctx, cfg.Purge = true, false
			if v%3 == 2 {
				// the same overlap without a context: a client pauses or stops the worker
				cfg.Ctx, cfg.Mixed = false, Pick(p.Rng, "Pause", "Stop")
			}
			cfg.Callers = Pick(p.Rng, 1, 2, 3)
			p.Explore(func(pl Plan) *Result { return epC06(c, cfg) },
				ExploreOpts{Base: 4, Noise: c.Q(20, 100), K: c.Q(2, 5), Funcs: append([]string{"stop", "goListenToContext", "Context"}, c06Funcs...), Pairs: c.Q(20, 150), MaxCases: c.Q(250, 3000)})
		})
	}
	for v := 0; v < c.Q(32, 96); v++ {
		c.Program(fmt.Sprintf("tail/%d", v), func(p *Prog) {
			cfg := c06TailCfg{WK: Pick(p.Rng, WPlain, WErr, WResult), QK: Pick(p.Rng, QFifo, QPrio), Conc: Pick(p.Rng, 1, 1, 2, 3),
				NTail: 1 + p.Rng.Intn(3), Mode: Pick(p.Rng, "cancel", "purge"), Bar: Pick(p.Rng, "WaitUntilFinished", "WaitUntilFinished", "PauseAndWait", "Stop", "WaitAndStop")}
			p.Explore(func(pl Plan) *Result { return epC06Tail(c, cfg) },
				ExploreOpts{Base: 2, K: c.Q(2, 5), Funcs: funcs, Pairs: c.Q(10, 80), MaxCases: c.Q(200, 3000)})
		})
	}
}
