package vharness

// The length family (C17 bounds): paced producers keep the FIFO nearly empty while reader
// goroutines spin on NumPending of the queue and of the worker; every value read must lie in
// [0, submissions begun]. Stalls between the statements of Len() do the rest.

import (
	"fmt"
	"runtime"
	"sync"
	"sync/atomic"
	"testing/synctest"
)

type lenCfg struct {
	WK      WK
	QK      QK
	Conc    int
	Prods   int
	PerProd int
	Readers int
	Extra   int // additional bound queues (kinds cycle)
	Purges  int // concurrent Purge calls
}

func (c lenCfg) String() string {
	return fmt.Sprintf("len wk=%v qk=%v conc=%d prods=%d per=%d readers=%d extra=%d purges=%d", c.WK, c.QK, c.Conc, c.Prods, c.PerProd, c.Readers, c.Extra, c.Purges)
}

func epLen(c *RunCtx, cfg lenCfg) *Result {
	e := NewEnv(c.Prop)
	n := cfg.Prods * cfg.PerProd
	k := NewKit(e, n)
	e.Quiet = true // thousands of reads: keep the log for the interesting events only
	out := RunBubble(c.T, func(bid string) {
		s := NewSubject(cfg.WK, k.Work, cfg.Conc)
		q := s.Bind(cfg.QK, nil)
		for x := 0; x < cfg.Extra; x++ {
			s.Bind(QK(x%2), nil)
		}
		var begun atomic.Int64
		var stop atomic.Bool
		var minSeen, maxOver atomic.Int64
		var reads atomic.Int64
		var rwg, pwg sync.WaitGroup
		for r := 0; r < cfg.Readers; r++ {
			rwg.Add(1)
			go func(r int) {
				defer rwg.Done()
				for it := 0; it < 4000 && !stop.Load(); it++ {
					var v int
					if r%2 == 0 {
						v = q.Base.NumPending()
					} else {
						v = s.W.NumPending()
					}
					b := begun.Load()
					reads.Add(1)
					if int64(v) < minSeen.Load() {
						minSeen.Store(int64(v))
					}
					if over := int64(v) - b; over > maxOver.Load() {
						// b was read after v, so v <= submissions begun by then
						maxOver.Store(over)
					}
					if it%8 == 7 {
						runtime.Gosched()
					}
				}
			}(r)
		}
		for p := 0; p < cfg.Prods; p++ {
			pwg.Add(1)
			go func(p int) {
				defer pwg.Done()
				for i := p; i < n; i += cfg.Prods {
					begun.Add(1)
					k.Add(q, i)
					// pace: wait for the job so that the queue hovers around empty
					if h := k.Recs[i].H; h != nil && i%3 != 0 && cfg.Purges == 0 {
						h.Wait()
					}
				}
			}(p)
		}
		if cfg.Purges > 0 {
			pwg.Add(1)
			go func() {
				defer pwg.Done()
				for x := 0; x < cfg.Purges; x++ {
					q.Base.Purge()
					runtime.Gosched()
				}
			}()
		}
		pwg.Wait()
		stop.Store(true)
		rwg.Wait()
		synctest.Wait()
		e.Quiet = false
		e.Ev("reads", reads.Load())
		if m := minSeen.Load(); m < 0 {
			e.Fail("C17", "negative", "NumPending", fmt.Sprintf("NumPending returned %d (lowest of %d reads)", m, reads.Load()))
		}
		if o := maxOver.Load(); o > 0 {
			e.Fail("C17", "pending-above-accepted", "NumPending", fmt.Sprintf("NumPending exceeded the submissions begun by %d", o))
		}
		if p := s.W.NumPending(); p != 0 {
			e.Fail("C17", "pending-at-rest", "worker", fmt.Sprintf("worker.NumPending=%d at rest", p))
		}
		e.Stat("len_reads", float64(reads.Load()))
		e.ntFor("C17")
		s.W.Stop()
		synctest.Wait()
	})
	if out.Kind == "hang" {
		e.Fail("C03", "hang", "len/"+blockedLibFrames(out.Stacks), out.Msg+"\n"+out.Stacks)
	} else if out.Kind == "panic" {
		e.Fail(c.Prop, "harness-panic", "", out.Msg+"\n"+out.Stacks)
	}
	r := e.Result(map[string]any{"program": cfg.String()})
	// the signature of this family is the read count bucket, not an event order
	return r
}

func lenPrograms(c *RunCtx, nq, nt int) {
	for v := 0; v < c.Q(nq, nt); v++ {
		c.Program(fmt.Sprintf("len/%d", v), func(p *Prog) {
			r := p.Rng
			cfg := lenCfg{WK: Pick(r, WPlain, WErr, WResult), QK: Pick(r, QFifo, QFifo, QPrio), Conc: Pick(r, 1, 2, 4), Prods: Pick(r, 1, 2, 3),
				PerProd: 10 + r.Intn(30), Readers: Pick(r, 2, 4), Extra: Pick(r, 0, 0, 1, 2), Purges: Pick(r, 0, 0, 8, 30)}
			p.Explore(func(pl Plan) *Result { return epLen(c, cfg) },
				ExploreOpts{Base: 6, K: c.Q(3, 6), Funcs: []string{"Queue.Len", "Manager.Len", "PriorityQueue.Len", "Enqueue", "Dequeue", "NumPending", "Purge"}, Pairs: c.Q(10, 60), MaxCases: c.Q(120, 1000)})
		})
	}
}
