package vharness

// C15 - multi-queue selection follows the configured strategy and starves no queue.
// All queues are bound first, the worker is paused once, populations are loaded, and then one
// gated job at a time is released (concurrency 1): at every quiescent point the queue the worker
// took the next job from is checked against a reference selector replayed on the same lengths;
// further submissions are interleaved between dispatches (DESIGN.md §6 C15).

import (
	"fmt"
	"sort"
	"strings"
	"testing/synctest"

	"github.com/goptics/varmq"
)

func init() { registry["C15"] = runC15 }

type stratCfg struct {
	Strategy int // 0 RR, 1 MaxLen, 2 MinLen
	Kinds    []QK
	Pop      [][]int  // initial priorities per queue
	Adds     [][2]int // interleaved submissions: (after how many dispatches, queue)
	Binds    [][2]int // further queues bound in the middle of the run: (after how many dispatches, kind)
	Closes   [][2]int // queues closed in the middle of the run once they hold nothing: (after how many dispatches, queue)
	Faults   [][2]int // transient dequeue faults of adapter-backed queues: (queue, which dequeue call)
	Conc     int
}

var stratNames = []string{"RoundRobin", "MaxLen", "MinLen"}

func (c stratCfg) String() string {
	var ks []string
	for i, k := range c.Kinds {
		ks = append(ks, fmt.Sprintf("%s:%d", k, len(c.Pop[i])))
	}
	return fmt.Sprintf("strategy=%s conc=%d queues=[%s] interleaved=%d lateBinds=%v closes=%v deqFaults=%v", stratNames[c.Strategy], c.Conc, strings.Join(ks, " "), len(c.Adds), c.Binds, c.Closes, c.Faults)
}

// stratAdapters: only adapter-backed queues, always with refused dequeues (C11)
var stratAdapters bool

func drawStrat(r *Rng) stratCfg {
	c := stratCfg{Strategy: r.Intn(3), Conc: Pick(r, 1, 1, 1, 2, 3, 4)}
	nq := 2 + r.Intn(5)
	total := 0
	for i := 0; i < nq; i++ {
		k := QK(r.Intn(6))
		if stratAdapters {
			k = Pick(r, QPers, QPersPrio, QDist, QDistPrio)
		}
		c.Kinds = append(c.Kinds, k)
		n := Pick(r, 0, 1, 2, 3, 5, 8, 12)
		var pr []int
		for j := 0; j < n; j++ {
			if k.Priority() {
				pr = append(pr, Pick(r, 0, 0, 1, 2, -3, 7))
			} else {
				pr = append(pr, 0)
			}
		}
		c.Pop = append(c.Pop, pr)
		total += n
	}
	if r.Chance(50) {
		for i := 0; i < 1+r.Intn(8); i++ {
			c.Adds = append(c.Adds, [2]int{r.Intn(total + 2), r.Intn(nq)})
		}
	}
	if r.Chance(30) && total > 2 {
		// binding another queue in the middle of a cycle must not disturb the order of the cycle
		for i := 0; i < 1+r.Intn(2); i++ {
			c.Binds = append(c.Binds, [2]int{1 + r.Intn(total-1), r.Intn(6)})
		}
	}
	if r.Chance(25) && total > 2 {
		// closing a queue that holds nothing must not disturb the order of the others
		for i := 0; i < 1+r.Intn(2); i++ {
			c.Closes = append(c.Closes, [2]int{r.Intn(total), r.Intn(nq)})
		}
	}
	if r.Chance(25) || stratAdapters {
		// a backend hiccup on one queue: the dispatcher goes on with the others and comes back
		for qi, k := range c.Kinds {
			if k.Adapter() && len(c.Pop[qi]) > 0 && r.Chance(60) {
				for i := 0; i < 1+r.Intn(2); i++ {
					at := 1 + r.Intn(len(c.Pop[qi])+1)
					for l := 0; l < Pick(r, 1, 1, 2, 3); l++ {
						c.Faults = append(c.Faults, [2]int{qi, at + l})
					}
				}
			}
		}
	}
	return c
}

type sJob struct {
	data, prio, seq int
}

func epStrat(c *RunCtx, cfg stratCfg) *Result {
	e := NewEnv(c.Prop)
	nq := len(cfg.Kinds)
	kinds := append([]QK{}, cfg.Kinds...)
	total := len(cfg.Adds)
	for _, p := range cfg.Pop {
		total += len(p)
	}
	// data encodes queue*1000+serial; Kit records are indexed densely
	k := NewKit(e, total)
	out := RunBubble(c.T, func(bid string) {
		strat := []varmq.Strategy{varmq.RoundRobin, varmq.MaxLen, varmq.MinLen}[cfg.Strategy]
		s := NewSubject(WPlain, k.Work, cfg.Conc, varmq.WithStrategy(strat))
		qs := make([]*BoundQ, nq)
		for i, kind := range cfg.Kinds {
			var led *Ledger
			if kind.Adapter() {
				led = NewLedger(e, kind.Priority())
				for _, f := range cfg.Faults {
					if f[0] == i {
						led.FailDeq[f[1]] = true
					}
				}
			}
			qs[i] = s.Bind(kind, led)
		}
		closed := map[int]bool{}
		s.W.Pause()
		model := make([][]*sJob, nq)
		owner := map[int]int{}
		next, seq := 0, 0
		add := func(qi, prio int) {
			i := next
			next++
			k.Recs[i].Prio = prio
			k.Recs[i].Gate = make(chan struct{})
			k.Add(qs[qi], i)
			if !k.Recs[i].OK {
				e.Fail("C15", "rejected", "", fmt.Sprintf("add to queue %d rejected", qi))
			}
			owner[i] = qi
			model[qi] = append(model[qi], &sJob{data: i, prio: prio, seq: seq})
			seq++
			if kinds[qi].Priority() {
				sort.SliceStable(model[qi], func(a, b int) bool {
					if model[qi][a].prio != model[qi][b].prio {
						return model[qi][a].prio < model[qi][b].prio
					}
					return model[qi][a].seq < model[qi][b].seq
				})
			}
		}
		for qi, pr := range cfg.Pop {
			for _, p := range pr {
				add(qi, p)
			}
		}
		synctest.Wait()
		checkSum := func(where string) {
			sum := 0
			for qi := range model {
				sum += len(model[qi])
				if got := qs[qi].Base.NumPending(); got != len(model[qi]) {
					e.Fail("C17", "pending-at-q", kinds[qi].String(), fmt.Sprintf("%s: queue %d NumPending=%d, model %d", where, qi, got, len(model[qi])))
				}
			}
			if got := s.W.NumPending(); got != sum {
				e.Fail("C15", "pending-sum", "", fmt.Sprintf("%s: worker.NumPending=%d, sum over its queues %d (kinds %v)", where, got, sum, cfg.Kinds))
				e.Fail("C17", "worker-pending-at-q", "", fmt.Sprintf("%s: worker.NumPending=%d, sum over its queues %d", where, got, sum))
			}
		}
		checkSum("loaded")
		cursor := 0
		dispatched := 0
		perQueue := make([]int, nq)
		deqCalls := map[int]int{} // dequeue calls made so far on each adapter-backed queue (model)
		isFault := func(qi, call int) bool {
			for _, f := range cfg.Faults {
				if f[0] == qi && f[1] == call {
					return true
				}
			}
			return false
		}
		executing := map[int]bool{}
		var order []string
		// observe compares the jobs that started since the last observation with the reference selector
		// applied, one dispatch after the other, to the lengths of the moment.
		observe := func(where string) bool {
			var started []int
			nowExec := 0
			for _, r := range k.Recs[:next] {
				if r.Enter.Load() != 0 && r.Exit.Load() == 0 {
					nowExec++
					if !executing[r.Idx] {
						executing[r.Idx] = true
						started = append(started, r.Idx)
					}
				}
			}
			if nowExec > cfg.Conc {
				e.Fail("C02", "more-in-flight-than-limit", "strategy", fmt.Sprintf("%s: %d executing at concurrency %d", where, nowExec, cfg.Conc))
				return false
			}
			lens := make([]int, nq)
			pending := 0
			for qi := range model {
				lens[qi] = len(model[qi])
				pending += lens[qi]
			}
			kNew := len(started)
			if want := min(cfg.Conc-(nowExec-kNew), pending); kNew != want {
				det := fmt.Sprintf("%s: %d jobs started, %d expected (limit %d, %d were executing, queues hold %v)", where, kNew, want, cfg.Conc, nowExec-kNew, lens)
				if kNew < want {
					e.Fail("C03", "no-progress-at-quiescence", "strategy", det)
					e.Fail("C15", "starved", stratNames[cfg.Strategy], det)
				} else {
					e.Fail("C15", "dispatch-count", stratNames[cfg.Strategy], det)
				}
				return false
			}
			if kNew == 0 {
				return true
			}
			got := make([]int, nq)
			for _, d := range started {
				got[owner[d]]++
				order = append(order, fmt.Sprintf("q%d:%d", owner[d], d))
			}
			for qi := range got {
				if got[qi] > lens[qi] {
					e.Fail("C15", "more-than-pending", kinds[qi].String(), fmt.Sprintf("%s: %d jobs of queue %d started, it held %d", where, got[qi], qi, lens[qi]))
					return false
				}
			}
			sim := append([]int{}, lens...)
			switch cfg.Strategy {
			case 0:
				// exact: the cursor, and the dequeue calls that are going to be refused, are known
				want := make([]int, nq)
				cur := cursor
				calls := map[int]int{}
				for qi, n := range deqCalls {
					calls[qi] = n
				}
				for step := 0; step < kNew; step++ {
					for guard := 0; ; guard++ {
						x := -1
						for d := 0; d < nq; d++ {
							if y := (cur + d) % nq; sim[y] > 0 {
								x = y
								break
							}
						}
						if x < 0 || guard > 10000 {
							e.Fail(c.Prop, "harness-panic", "strategy-model", "reference selector found nothing to dispatch")
							return false
						}
						cur = (x + 1) % nq
						if qs[x].Led != nil {
							calls[x]++
							if isFault(x, calls[x]) {
								continue // refused: the dispatcher reports the error and asks the selector again
							}
						}
						want[x]++
						sim[x]--
						break
					}
				}
				for qi := range want {
					if want[qi] != got[qi] {
						e.Fail("C15", "round-robin", kinds[qi].String(), fmt.Sprintf("%s: %d dispatches took %v jobs per queue, round robin from cursor %d over lengths %v (refused dequeues %v, calls so far %v) takes %v; order so far %v", where, kNew, got, cursor, lens, cfg.Faults, deqCalls, want, order))
						return false
					}
				}
				cursor = cur
				deqCalls = calls
			case 1, 2:
				// taking from any longest (shortest non-empty) queue k times leaves the same multiset of
				// lengths whichever way ties are broken, and a refused dequeue is simply retried
				for step := 0; step < kNew; step++ {
					x := -1
					for qi, l := range sim {
						if l == 0 {
							continue
						}
						if x < 0 || (cfg.Strategy == 1 && l > sim[x]) || (cfg.Strategy == 2 && l < sim[x]) {
							x = qi
						}
					}
					sim[x]--
				}
				rem := make([]int, nq)
				for qi := range rem {
					rem[qi] = lens[qi] - got[qi]
				}
				a, b := append([]int{}, sim...), append([]int{}, rem...)
				sort.Ints(a)
				sort.Ints(b)
				for i := range a {
					if a[i] != b[i] {
						rule := "max-len"
						if cfg.Strategy == 2 {
							rule = "min-len"
						}
						e.Fail("C15", rule, "", fmt.Sprintf("%s: %d dispatches took %v jobs per queue from lengths %v and left %v; the strategy leaves the lengths %v (in some order)", where, kNew, got, lens, rem, sim))
						return false
					}
				}
			}
			// the jobs taken from a queue are the first ones of its order
			for qi, n := range got {
				if n == 0 {
					continue
				}
				heads := map[int]bool{}
				for _, h := range model[qi][:n] {
					heads[h.data] = true
				}
				for _, d := range started {
					if owner[d] == qi && !heads[d] {
						e.Fail("C04", "wrong-job-dispatched", kinds[qi].String(), fmt.Sprintf("%s: queue %d handed out job %d, its order says %d first", where, qi, d, model[qi][0].data))
						e.Fail("C15", "within-queue-order", kinds[qi].String(), fmt.Sprintf("%s: queue %d handed out job %d, its order says %d first", where, qi, d, model[qi][0].data))
						return false
					}
				}
				model[qi] = model[qi][n:]
				perQueue[qi] += n
			}
			dispatched += kNew
			return true
		}
		s.W.Resume()
		synctest.Wait()
		ok := observe("after resume")
		lastSeen := -1
		for ok && len(executing) > 0 {
			for lastSeen < dispatched {
				lastSeen++
				for _, b := range cfg.Binds {
					if b[0] == lastSeen {
						kind := QK(b[1])
						var led *Ledger
						if kind.Adapter() {
							led = NewLedger(e, kind.Priority())
						}
						qs = append(qs, s.Bind(kind, led))
						kinds = append(kinds, kind)
						model = append(model, nil)
						perQueue = append(perQueue, 0)
						nq++
						e.Ev("late-bind", kind.String())
					}
				}
				for _, a := range cfg.Adds {
					if a[0] == lastSeen && !closed[a[1]%nq] {
						add(a[1]%nq, 0)
					}
				}
				for _, cl := range cfg.Closes {
					if qi := cl[1] % nq; cl[0] == lastSeen && len(model[qi]) == 0 && !closed[qi] {
						closed[qi] = true
						qs[qi].Base.Close()
						e.Ev("close-empty-queue", qi)
					}
				}
			}
			synctest.Wait()
			// submissions made while a slot was free are dispatched at once
			if ok = observe(fmt.Sprintf("after the calls at dispatch %d", dispatched)); !ok {
				break
			}
			checkSum(fmt.Sprintf("dispatch %d", dispatched))
			// let the oldest executing job finish
			oldest := -1
			for d := range executing {
				if oldest < 0 || k.Recs[d].Enter.Load() < k.Recs[oldest].Enter.Load() {
					oldest = d
				}
			}
			delete(executing, oldest)
			close(k.Recs[oldest].Gate)
			synctest.Wait()
			ok = observe(fmt.Sprintf("dispatch %d", dispatched+1))
		}
		// every delivery was acknowledged on the adapter that made it, once
		for qi, q := range qs {
			if q.Led == nil {
				continue
			}
			for _, pr := range q.Led.ProblemsCopy() {
				e.Fail("C11", "bad-ack", "multi-queue/"+strings.Fields(pr)[0], fmt.Sprintf("%s: adapter of queue %d: %s", cfg, qi, pr))
			}
			if ok {
				if p, u, _ := q.Led.State(); p != 0 || u != 0 {
					e.Fail("C11", "unacked-left", "multi-queue", fmt.Sprintf("%s: adapter of queue %d holds pending=%d unacknowledged=%d after everything ran", cfg, qi, p, u))
				}
			}
		}
		if ok {
			for _, r := range k.Recs[:next] {
				if r.Runs.Load() != 1 {
					e.Fail("C01", "not-exactly-once", "strategy", fmt.Sprintf("job %d ran %d times", r.Idx, r.Runs.Load()))
				}
			}
			checkSum("end")
		}
		nonEmpty := 0
		for _, n := range perQueue {
			if n > 0 {
				nonEmpty++
			}
		}
		if nonEmpty >= 2 {
			e.Nontrivial()
		}
		e.Stat("dispatches_checked", float64(dispatched))
		// release whatever is still gated so that Stop can finish
		for _, r := range k.Recs[:next] {
			if r.Enter.Load() != 0 && r.Exit.Load() == 0 {
				close(r.Gate)
			}
		}
		if !ok {
			return
		}
		s.W.Stop()
		synctest.Wait()
	})
	if out.Kind == "hang" {
		e.Fail("C03", "hang", "strategy/"+blockedLibFrames(out.Stacks), out.Msg+"\n"+out.Stacks)
	} else if out.Kind == "panic" {
		e.Fail(c.Prop, "harness-panic", "", out.Msg+"\n"+out.Stacks)
	}
	return e.Result(k.Sample(cfg.String()))
}

func stratAdapterPrograms(c *RunCtx, nq, nt int) {
	for v := 0; v < c.Q(nq, nt); v++ {
		c.Program(fmt.Sprintf("strategy-adapters/%d", v), func(p *Prog) {
			stratAdapters = true
			cfg := drawStrat(p.Rng)
			stratAdapters = false
			p.Explore(func(pl Plan) *Result { return epStrat(c, cfg) }, ExploreOpts{Base: 2})
		})
	}
}

func runC15(c *RunCtx) {
	bindStormPrograms(c, 24, 120)
	for v := 0; v < c.Q(1200, 6000); v++ {
		c.Program(fmt.Sprintf("strategy/%d", v), func(p *Prog) {
			cfg := drawStrat(p.Rng)
			o := ExploreOpts{Base: 2}
			if v%8 == 0 {
				o = ExploreOpts{Base: 2, K: 2, Funcs: []string{"Manager", "queueManager.next", "processNextJob", "Register"}, Pairs: c.Q(4, 20), MaxCases: c.Q(40, 300)}
			}
			p.Explore(func(pl Plan) *Result { return epStrat(c, cfg) }, o)
		})
	}
}
