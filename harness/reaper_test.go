package vharness

// The reaper family: bursts of submissions arrive at the very fake-clock instants at which the
// idle-worker remover ticks and the previous burst's pool nodes have just expired, so that trimming
// overlaps dispatch; stalls inside the remover loop and the dispatcher widen the window
// (DESIGN.md §5.2 timer alignment). Serves C01 (no job lost), C03 (no stuck job), C18 (pool census).

import (
	"fmt"
	"strings"
	"sync"
	"testing/synctest"
	"time"
)

type reaperCfg struct {
	WK     WK
	QK     QK
	Conc   int
	Expiry time.Duration
	Ratio  int
	Rounds int
	Burst  int
	Gap    int // idle periods between bursts
	Prods  int
}

func (c reaperCfg) String() string {
	return fmt.Sprintf("reaper wk=%v qk=%v conc=%d exp=%v ratio=%d rounds=%d burst=%d gap=%d prods=%d", c.WK, c.QK, c.Conc, c.Expiry, c.Ratio, c.Rounds, c.Burst, c.Gap, c.Prods)
}

func drawReaper(r *Rng) reaperCfg {
	c := reaperCfg{WK: Pick(r, WPlain, WErr, WResult), QK: Pick(r, QFifo, QPrio)}
	c.Conc = Pick(r, 2, 4, 4, 8)
	c.Expiry = Pick(r, 50*time.Microsecond, time.Millisecond)
	c.Ratio = Pick(r, 1, 1, 25, 50)
	c.Rounds = 3 + r.Intn(4)
	c.Burst = 1 + r.Intn(c.Conc+2)
	c.Gap = Pick(r, 1, 2, 2, 3)
	c.Prods = Pick(r, 1, 1, 2)
	return c
}

var reaperFuncs = []string{"goRemoveIdleWorkers", "sendToNextChannel", "processNextJob", "freePoolNode", "initPoolNode", "PopBack", "PushNode", "Remove", "NodeSlice", "Node.Stop", "Node.Send", "Node.Serve", "List.Len", "numMinIdleWorkers", "GetLastUsed", "UpdateLastUsed"}

func epReaper(c *RunCtx, cfg reaperCfg) *Result {
	e := NewEnv(c.Prop)
	n := cfg.Rounds * cfg.Burst
	k := NewKit(e, n)
	ended := false
	out := RunBubble(c.T, func(bid string) {
		start := time.Now()
		s := NewSubject(cfg.WK, k.Work, cfg.Conc, varmqExpiry(cfg.Expiry), varmqRatio(uint8(cfg.Ratio)))
		q := s.Bind(cfg.QK, nil)
		for round := 0; round < cfg.Rounds; round++ {
			// next tick instant at least Gap idle periods away
			el := time.Since(start)
			next := (el/cfg.Expiry + time.Duration(cfg.Gap) + 1) * cfg.Expiry
			time.Sleep(next - el)
			var wg sync.WaitGroup
			lo := round * cfg.Burst
			for p := 0; p < cfg.Prods; p++ {
				wg.Add(1)
				go func(p int) {
					defer wg.Done()
					for i := lo + p; i < lo+cfg.Burst; i += cfg.Prods {
						k.Add(q, i)
					}
				}(p)
			}
			wg.Wait()
			ok := k.Await(func() {
				for i := lo; i < lo+cfg.Burst; i++ {
					if h := k.Recs[i].H; h != nil {
						h.Wait()
					}
				}
			})
			if !ok {
				for i := lo; i < lo+cfg.Burst; i++ {
					r := k.Recs[i]
					if r.H != nil && r.H.Status() != "Closed" {
						det := fmt.Sprintf("round %d: job %d status %s runs=%d never completed; pending=%d processing=%d idle=%d", round, i, r.H.Status(), r.Runs.Load(), s.W.NumPending(), s.W.NumProcessing(), s.W.NumIdleWorkers())
						if r.H.Status() == "Processing" && r.Runs.Load() == 0 {
							e.Fail("C03", "stuck-processing", "", det)
							e.Fail("C01", "lost", "stuck-processing", det)
							e.Fail("C18", "lost-job-under-trimming", "", det)
						} else {
							e.Fail("C03", "stuck", r.H.Status(), det)
							e.Fail("C01", "lost", "stuck", det)
						}
					}
				}
				hangFail(e, "C05", "Wait", bid)
				return
			}
			e.ntFor("C01")
			e.ntFor("C03")
		}
		synctest.Wait()
		for _, r := range k.Recs {
			if r.Runs.Load() != 1 {
				e.Fail("C01", "not-exactly-once", "", fmt.Sprintf("job %d ran %d times", r.Idx, r.Runs.Load()))
			}
		}
		by, _, det := Census(bid)
		nodes, idle := by[".(*worker).initPoolNode"], s.W.NumIdleWorkers()
		if nodes != idle {
			e.Fail("C18", "pool-census-mismatch", "reaper", fmt.Sprintf("%d pool goroutines, %d idle at rest\n%s", nodes, idle, strings.Join(det, "\n")))
		}
		if nodes > cfg.Conc {
			e.Fail("C18", "too-many-pool-goroutines", "", fmt.Sprintf("%d pool goroutines at limit %d", nodes, cfg.Conc))
		}
		if idle < 1 {
			e.Fail("C18", "no-idle-worker", "", "running worker at rest keeps no idle worker")
		}
		time.Sleep(4 * cfg.Expiry)
		synctest.Wait()
		target := max(cfg.Conc*cfg.Ratio/100, 1)
		if idle = s.W.NumIdleWorkers(); idle < 1 || idle > target {
			e.Fail("C18", "idle-not-trimmed", "", fmt.Sprintf("after 4 idle periods NumIdleWorkers=%d, want 1..%d", idle, target))
		}
		e.ntFor("C18")
		if !k.Await(func() { s.W.Stop() }) {
			hangFail(e, "C06", "Stop(final)", bid)
			return
		}
		synctest.Wait()
		if by, total, det := Census(bid); total != 0 {
			e.Fail("C18", "goroutines-after-stop", creators(by), fmt.Sprintf("%d library goroutines remain after Stop: %v\n%s", total, by, strings.Join(det, "\n")))
		}
		ended = true
	})
	switch out.Kind {
	case "hang":
		e.Fail("C03", "hang", "deadlock/"+blockedLibFrames(out.Stacks), out.Msg+"\n"+out.Stacks)
	case "leak":
		if ended {
			e.Fail("C18", "leak-after-stop", blockedLibFrames(out.Stacks), out.Msg+"\n"+out.Stacks)
		}
	case "panic":
		e.Fail(c.Prop, "harness-panic", "", out.Msg+"\n"+out.Stacks)
	}
	return e.Result(k.Sample(cfg.String()))
}

func reaperPrograms(c *RunCtx, nq, nt int) {
	for v := 0; v < c.Q(nq, nt); v++ {
		c.Program(fmt.Sprintf("reaper/%d", v), func(p *Prog) {
			cfg := drawReaper(p.Rng)
			p.Explore(func(pl Plan) *Result { return epReaper(c, cfg) },
				ExploreOpts{Base: 4, Noise: c.Q(20, 100), K: c.Q(6, 12), Funcs: reaperFuncs, Pairs: c.Q(40, 200), MaxCases: c.Q(300, 3000)})
		})
	}
}
