package vharness

// The tune-race family (C18, C01, C03): TunePool shrinks the idle pool while producers keep the
// dispatcher busy taking idle workers; a worker taken by the dispatcher must not be stopped by the
// shrink. No idle expiry, a min-idle ratio that keeps the pool large.

import (
	"fmt"
	"strings"
	"sync"
	"testing/synctest"
	"time"
)

type tuneRaceCfg struct {
	WK     WK
	QK     QK
	Conc   int
	Ratio  int
	Rounds int
	Burst  int
	To     []int
}

func (c tuneRaceCfg) String() string {
	return fmt.Sprintf("tune-race wk=%v qk=%v conc=%d ratio=%d rounds=%d burst=%d to=%v", c.WK, c.QK, c.Conc, c.Ratio, c.Rounds, c.Burst, c.To)
}

func epTuneRace(c *RunCtx, cfg tuneRaceCfg) *Result {
	e := NewEnv(c.Prop)
	n := cfg.Conc + cfg.Rounds*cfg.Burst
	k := NewKit(e, n)
	ended := false
	out := RunBubble(c.T, func(bid string) {
		s := NewSubject(cfg.WK, k.Work, cfg.Conc, varmqRatio(uint8(cfg.Ratio)))
		q := s.Bind(cfg.QK, nil)
		// grow the pool: conc jobs in flight at once, then all finish and stay idle (ratio keeps them)
		gate := make(chan struct{})
		for i := 0; i < cfg.Conc; i++ {
			k.Recs[i].Gate = gate
			k.Add(q, i)
		}
		synctest.Wait()
		close(gate)
		synctest.Wait()
		next := cfg.Conc
		cur := cfg.Conc
		for r := 0; r < cfg.Rounds; r++ {
			to := cfg.To[r%len(cfg.To)]
			var wg sync.WaitGroup
			wg.Add(2)
			lo := next
			next += cfg.Burst
			go func() {
				defer wg.Done()
				for i := lo; i < lo+cfg.Burst; i++ {
					k.Add(q, i)
				}
			}()
			go func() {
				defer wg.Done()
				if to != cur {
					k.Control(s.W, "TunePool", to)
				}
			}()
			wg.Wait()
			cur = to
			ok := k.Await(func() {
				for i := lo; i < lo+cfg.Burst; i++ {
					if h := k.Recs[i].H; h != nil {
						h.Wait()
					}
				}
			})
			if !ok {
				for i := lo; i < lo+cfg.Burst; i++ {
					if r := k.Recs[i]; r.H != nil && r.H.Status() != "Closed" {
						det := fmt.Sprintf("%s: round %d: job %d status %s runs=%d never completed; pending=%d processing=%d idle=%d", cfg, r.Idx, i, r.H.Status(), r.Runs.Load(), s.W.NumPending(), s.W.NumProcessing(), s.W.NumIdleWorkers())
						e.Fail("C18", "lost-job-under-tunepool", "", det)
						e.Fail("C01", "lost", "tune-race", det)
						e.Fail("C03", "stuck", "tune-race/"+r.H.Status(), det)
						break
					}
				}
				hangFail(e, "C05", "Wait", bid)
				return
			}
			synctest.Wait()
			by, _, det := Census(bid)
			nodes, idle := by[".(*worker).initPoolNode"], s.W.NumIdleWorkers()
			if nodes != idle {
				e.Fail("C18", "pool-census-mismatch", "tune-race", fmt.Sprintf("%s: round %d: %d pool goroutines, %d idle at rest\n%s", cfg, r, nodes, idle, strings.Join(det, "\n")))
			}
			if idle < 1 {
				e.Fail("C18", "no-idle-worker", "tune-race", fmt.Sprintf("%s: round %d: running worker at rest keeps %d idle workers", cfg, r, idle))
			}
			time.Sleep(time.Microsecond)
		}
		for _, r := range k.Recs[:next] {
			if r.Runs.Load() != 1 {
				e.Fail("C01", "not-exactly-once", "tune-race", fmt.Sprintf("%s: job %d ran %d times", cfg, r.Idx, r.Runs.Load()))
			}
		}
		e.Nontrivial()
		if !k.Await(func() { s.W.Stop() }) {
			hangFail(e, "C06", "Stop(final)", bid)
			return
		}
		synctest.Wait()
		if by, total, det := Census(bid); total != 0 {
			e.Fail("C18", "goroutines-after-stop", creators(by), fmt.Sprintf("%s: %d library goroutines remain after Stop: %v\n%s", cfg, total, by, strings.Join(det, "\n")))
		}
		ended = true
	})
	switch out.Kind {
	case "hang":
		e.Fail("C03", "hang", "tune-race/"+blockedLibFrames(out.Stacks), cfg.String()+": "+out.Msg+"\n"+out.Stacks)
	case "leak":
		if ended {
			e.Fail("C18", "leak-after-stop", blockedLibFrames(out.Stacks), cfg.String()+": "+out.Msg)
		}
	case "panic":
		e.Fail(c.Prop, "harness-panic", "", cfg.String()+": "+out.Msg+"\n"+out.Stacks)
	}
	return e.Result(k.Sample(cfg.String()))
}

func tuneRacePrograms(c *RunCtx, nq, nt int) {
	for v := 0; v < c.Q(nq, nt); v++ {
		c.Program(fmt.Sprintf("tune-race/%d", v), func(p *Prog) {
			r := p.Rng
			cfg := tuneRaceCfg{WK: Pick(r, WPlain, WErr, WResult), QK: Pick(r, QFifo, QPrio), Conc: Pick(r, 4, 6, 8), Ratio: Pick(r, 50, 100, 100), Rounds: 2 + r.Intn(4), Burst: 1 + r.Intn(5)}
			for i := 0; i < 4; i++ {
				cfg.To = append(cfg.To, Pick(r, 1, 2, 3, cfg.Conc, cfg.Conc+2))
			}
			p.Explore(func(pl Plan) *Result { return epTuneRace(c, cfg) },
				ExploreOpts{Base: 4, Noise: c.Q(20, 100), K: c.Q(4, 8), Funcs: []string{"TunePool", "sendToNextChannel", "PopBack", "Back", "Remove", "PushNode", "freePoolNode", "processNextJob", "initPoolNode", "Node.Stop", "Node.Send"}, Pairs: c.Q(30, 150), MaxCases: c.Q(250, 3000)})
		})
	}
}
