#!/bin/bash
# usage: seedcheck.sh <prop> <k> [checks]  - verifies a sub-agent's seeded change m<k> for <prop> and runs checks against it
# 1. apply to a scratch worktree, build, run the repo suite twice, run the demo (must FAIL), revert, run the demo (must PASS)
# 2. run the given checks (default: the property's own) against the changed tree
p=$1; k=$2; checks=${3:-$p}; tier=${4:-quick}
base=${SEED_BASE:-/tmp/sa}; d=$base/$p/out; wt=/tmp/sv-$p-$k
[ -f $d/m$k.diff ] || { echo "SEED $p m$k: no diff"; exit 2; }
git -C /repo worktree remove --force $wt >/dev/null 2>&1
git -C /repo worktree add --detach $wt HEAD >/dev/null 2>&1
git -C $wt apply $d/m$k.diff || { echo "SEED $p m$k: diff does not apply"; git -C /repo worktree remove --force $wt; exit 2; }
cd $wt
GOFLAGS=-mod=mod go build ./... || { echo "SEED $p m$k: does not build"; cd /; git -C /repo worktree remove --force $wt; exit 2; }
suite=ok
for i in 1 2; do GOFLAGS=-mod=mod go test -vet=off -count=1 ./... >/tmp/sv-$p-$k.suite 2>&1 || suite=FAIL; done
demo=$(ls $d/m${k}_demo* 2>/dev/null | head -1)
demoWith=none; demoWithout=none
if [ -n "$demo" ]; then
  case $demo in
    *_test.go) cp $demo $wt/zz_seed_demo_test.go
       pat=$(grep -o '^func Test[A-Za-z0-9_]*' $demo | sed 's/func //' | paste -sd'|')
       GOFLAGS=-mod=mod timeout 900 go test -vet=off -count=1 -timeout 14m -run "^($pat)\$" . >/tmp/sv-$p-$k.demo1 2>&1 && demoWith=PASS || demoWith=FAIL
       git -C $wt apply -R $d/m$k.diff
       GOFLAGS=-mod=mod timeout 900 go test -vet=off -count=1 -timeout 14m -run "^($pat)\$" . >/tmp/sv-$p-$k.demo0 2>&1 && demoWithout=PASS || demoWithout=FAIL
       rm -f $wt/zz_seed_demo_test.go
       git -C $wt apply $d/m$k.diff ;;
    *) demoWith=manual; demoWithout=manual ;;
  esac
fi
echo "SEED $p m$k: suite=$suite demo_with_change=$demoWith demo_without=$demoWithout"
cd /verif
for c in ${checks//,/ }; do
  out=$(VCHECK_STALL_S=90 VERIF_REPO=$wt VERIF_EVIDENCE_DIR=/tmp/sv-ev-$p-$k VERIF_REPLAY_DIR=/tmp/sv-rp-$p-$k bin/vcheck run $c --tier $tier 2>&1); rc=$?
  fps=$(echo "$out" | grep -o 'fingerprint=.*occurrences' | sed 's/ occurrences//' | sort -u | head -4 | tr '\n' ' ')
  echo "SEED $p m$k check=$c tier=$tier exit=$rc $fps :: $(echo "$out" | grep '^property=' | tail -1 | cut -d' ' -f4-9)"
done
git -C /repo worktree remove --force $wt
rm -rf /tmp/sv-ev-$p-$k /tmp/sv-rp-$p-$k
