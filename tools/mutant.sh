#!/bin/bash
# usage: mutant.sh <name> revert:<commit>|<patch-file> <prop>[,<prop>...] [tier]
# Applies a change to a scratch worktree of /repo (never to /repo itself), runs the given checks
# against it through VERIF_REPO, prints one line per check, removes the worktree.
set -u
name=$1; change=$2; [[ $change != revert:* ]] && change=$(realpath $change); propsl=$3; tier=${4:-quick}
wt=/tmp/mut-$name
git -C /repo worktree remove --force $wt >/dev/null 2>&1
git -C /repo worktree add --detach $wt HEAD >/dev/null 2>&1 || { echo "worktree failed"; exit 2; }
if [[ $change == revert:* ]]; then
  git -C /repo show ${change#revert:} | git -C $wt apply -R --3way >/dev/null 2>&1 || { echo "$name: revert does not apply"; git -C /repo worktree remove --force $wt; exit 2; }
else
  git -C $wt apply $change || { echo "$name: patch does not apply"; git -C /repo worktree remove --force $wt; exit 2; }
fi
(cd $wt && GOFLAGS=-mod=mod GOPROXY=off GOTOOLCHAIN=local go1.26 build ./... ) || { echo "$name: does not build"; git -C /repo worktree remove --force $wt; exit 2; }
for p in ${propsl//,/ }; do
  out=$(cd /verif && VERIF_REPO=$wt VERIF_EVIDENCE_DIR=/tmp/mut-ev-$name VERIF_REPLAY_DIR=/tmp/mut-rp-$name bin/vcheck run $p --tier $tier 2>&1)
  rc=$?
  fps=$(echo "$out" | grep -o 'fingerprint=[^ ]*' | sort -u | head -5 | tr '\n' ' ')
  sum=$(echo "$out" | grep '^property=' | tail -1)
  echo "MUTANT $name check=$p tier=$tier exit=$rc $fps :: $sum"
done
git -C /repo worktree remove --force $wt
rm -rf /tmp/mut-ev-$name /tmp/mut-rp-$name
