#!/usr/bin/env python3
"""Runs every catalogued mutant against its checks (scratch worktrees of /repo, never /repo itself) and writes MUTANTS.md."""
import subprocess, os, sys, json, concurrent.futures, re
ROOT = os.path.dirname(os.path.dirname(os.path.abspath(__file__)))
tier = sys.argv[1] if len(sys.argv) > 1 else "quick"
only = sys.argv[2] if len(sys.argv) > 2 else ""
catalog = []
def add(name, spec, checks, what): catalog.append((name, spec, checks, what))
# reverts of the repairs (re-introduce the genuine defects found at the pinned commit)
add("rev-close-once", "mutants/pinned/F5-close-not-atomic.diff", "C10,C01,C05", "job.Close check-then-store, no dispatcher re-check (pinned defect)")
add("rev-batch-double-close", "mutants/pinned/F4-batch-double-close.diff", "C08", "every item reading the counter at zero closes the batch stream (pinned defect)")
add("rev-empty-batch", "mutants/pinned/F4b-empty-batch-never-closed.diff", "C08", "empty batch never closes its stream (pinned defect)")
add("rev-dispatch-gap", "mutants/pinned/F2-dispatch-gap.diff", "C06,C09", "dequeue before in-flight accounting, status only at loop head (pinned defect)")
add("rev-no-status-recheck", "mutants/pinned/F2b-no-status-recheck.diff", "C09", "slot reserved but pause/stop not re-checked")
add("rev-lost-wakeup", "revert:a2bf0c0", "C06", "broadcast without the waiters' mutex (pinned defect)")
add("rev-purge-park", "revert:c934275", "C06", "purge while parked never wakes WaitUntilFinished (pinned defect)")
add("rev-reaper-toctou", "revert:3190e40", "C01,C03,C18,C19", "idle remover stops a node the dispatcher just took (pinned defect)")
add("rev-reaper-leak", "mutants/pinned/F7-reaper-leak-r.diff", "C18", "idle remover goroutine survives Stop (pinned defect)")
add("rev-bind-restarts", "revert:fa74de0", "C14,C02", "Bind on a paused/stopped worker starts it (pinned defect)")
add("rev-stale-listener", "mutants/pinned/F10-stale-listener-r.diff", "C14", "context listener of the previous run stops the restarted worker (pinned defect)")
add("rev-restart-races", "mutants/pinned/F11-restart-races-r.diff", "C19", "fields replaced by Restart read without the mutex (pinned defect)")
add("rev-status-rewind", "revert:45d0037", "C16", "late queued store rewinds the status (pinned defect)")
add("rev-len-negative", "revert:d1c3d81", "C17", "Queue.Len from two unsynchronised loads (pinned defect)")
add("rev-double-register", "revert:8d1bf44", "C15,C17", "persistent priority queue registered twice (pinned defect)")
add("rev-shared-res-race", "revert:0dc7c53", "C19", "plain Response.res shared by a batch (pinned defect)")
add("rev-purge-drop", "revert:8676569", "C10,C01", "Values();Purge() drops a job enqueued in between (pinned defect)")
add("rev-stale-loop", "revert:fb8db3a", "C17,C02", "event loop of the previous run reserves slots after Restart (defect found by C17)")
add("rev-listener-order", "revert:a878198", "C14", "listener started before the status store (defect found by C14). No longer a defect on the final tree: since 4d9203e the listener's stop waits for the lifecycle lock that start holds, so the order does not matter; kept as a control that has to stay silent")
add("rev-ackid-race", "revert:ce0744a", "C19", "ackId read by Close while the dispatcher stores it (defect found by C19)")
add("rev-tunepool-idle", "revert:69a0b30", "C18", "TunePool and a finishing worker can empty the idle pool (defect found by C18)")
add("rev-lifecycle-mutex", "mutants/pinned/F20-no-lifecycle-mutex.diff", "C14", "lifecycle calls act on a stale status (defect found by C14; revert of 4d9203e and of the two later repairs that build on it)")
add("rev-pause-no-wakeup", "revert:babed52", "C06", "WaitUntilFinished sleeps forever when the worker is paused/stopped with nothing in flight (defect found by C06)")
add("rev-stale-listener-stop", "revert:4e3b81c", "C14,C09", "listener of an earlier run stops the restarted worker (defect found by C09)")
# own mutants
for f in sorted(os.listdir(os.path.join(ROOT, "mutants"))):
    if f.startswith("own-") and f.endswith(".diff"):
        prop = f.split("-")[1]
        extra = {"own-C13-completion-no-notify.diff": "C13,C03", "own-C03-no-notify-after-completion.diff": "C03,C13", "own-C02-guard-lte.diff": "C02,C17",
                 "own-C01-no-closed-skip.diff": "C01,C10", "own-C18-stop-without-stoptickers.diff": "C18"}.get(f, prop)
        note = {"own-C01-no-closed-skip.diff": "the dispatcher's first closed check removed: an equivalent change (the re-check after the status change does the same); kept as a control that has to stay silent"}.get(f, "")
        add(f[:-5], "mutants/" + f, extra, note)
if only: catalog = [c for c in catalog if only in c[0]]

def run(entry):
    name, spec, checks, what = entry
    wt = f"/tmp/msw-{name}"
    sh = lambda c, **k: subprocess.run(c, shell=True, capture_output=True, text=True, **k)
    sh(f"git -C /repo worktree remove --force {wt}")
    sh(f"git -C /repo worktree add --detach {wt} HEAD")
    try:
        if spec.startswith("revert:"):
            r = sh(f"git -C /repo show {spec[7:]} | git -C {wt} apply -R --3way")
        else:
            r = sh(f"git -C {wt} apply {os.path.join(ROOT, spec)}")
        if r.returncode != 0: return (name, what, "patch does not apply", [])
        r = sh("GOFLAGS=-mod=mod GOPROXY=off GOTOOLCHAIN=local go1.26 build ./...", cwd=wt)
        if r.returncode != 0: return (name, what, "does not build", [])
        r = sh("GOFLAGS=-mod=mod go test -vet=off -count=1 ./...", cwd=wt)
        suite = "passes" if r.returncode == 0 else "FAILS: " + ",".join(sorted(set(re.findall(r"--- FAIL: (\S+)", r.stdout)))[:3])
        res = []
        for c in checks.split(","):
            r = sh(f"VCHECK_STALL_S=90 VERIF_REPO={wt} VERIF_EVIDENCE_DIR=/tmp/msw-ev-{name} VERIF_REPLAY_DIR=/tmp/msw-rp-{name} bin/vcheck run {c} --tier {tier}", cwd=ROOT)
            fps = sorted(set(re.findall(r"fingerprint=(.*?) occurrences", r.stdout)))
            m = re.search(r"evaluations=(\d+).*wall=([\d.]+)s", r.stdout)
            res.append((c, r.returncode, fps[:3], m.group(1) if m else "?", m.group(2) if m else "?"))
        return (name, what, suite, res)
    finally:
        sh(f"git -C /repo worktree remove --force {wt}")
        sh(f"rm -rf /tmp/msw-ev-{name} /tmp/msw-rp-{name}")

with concurrent.futures.ThreadPoolExecutor(max_workers=2) as ex:
    results = list(ex.map(run, catalog))
lines = ["# Mutant catalogue: which check catches which change", "",
         f"Generated by `tools/mutsweep.py {tier}` (each change applied to a scratch worktree of /repo, never to /repo; repository suite run once with the change; checks run through VERIF_REPO). Reverts re-introduce the genuine defects repaired by the `fix:` commits; `own-*` are changes written while building the checks (mutants/*.diff); the independently written ones are under seeded/ (see DESIGN.md section 13.5).", "",
         "| change | what | repo suite with the change | check: exit (1 = caught) - fingerprints |", "|---|---|---|---|"]
for name, what, suite, res in results:
    cell = "<br>".join(f"{c}: exit {rc} ({ev} episodes, {w}s) " + "; ".join(fps).replace("|", "&#124;") for c, rc, fps, ev, w in res)
    lines.append(f"| {name} | {what} | {suite} | {cell} |")
    print(name, suite, [(c, rc) for c, rc, *_ in res], flush=True)
open(os.path.join(ROOT, "MUTANTS.md" if not only else "/tmp/MUTANTS.partial.md"), "w").write("\n".join(lines) + "\n")
