#!/bin/bash
# usage: runall.sh [tier] [seed]  - runs every check once, prints a one-line summary each
tier=${1:-quick}; seed=${2:-1}
cd "$(dirname "$0")/.."
for i in $(seq -w 1 19); do
  p=C$i
  out=$(VERIF_SEED=$seed bin/vcheck run $p --tier $tier 2>&1); rc=$?
  echo "exit=$rc $(echo "$out" | grep '^property=' | tail -1)"
  [ $rc -ne 0 ] && echo "$out" | grep -E "^VIOL|^INCON|fingerprint|inconclusive:" | head -8
done
