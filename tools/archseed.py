#!/usr/bin/env python3
"""usage: archseed.py <seed-base> <prop> <k> <round> <seedcheck-log> [history text]
Archives a confirmed sub-agent change as seeded/<prop>-r<round>-m<k>/ (patch.diff, demo, author_notes.md, meta.json).
The seedcheck log (output of tools/seedcheck.sh) supplies the confirmation line and the detection lines."""
import json, os, re, shutil, sys, glob
base, p, k, rnd, log = sys.argv[1:6]
hist = sys.argv[6] if len(sys.argv) > 6 else 'caught as delivered'
root = os.path.dirname(os.path.dirname(os.path.abspath(__file__)))
src = os.path.join(base, p, 'out')
dst = os.path.join(root, 'seeded', '%s-r%s-m%s' % (p, rnd, k))
os.makedirs(dst, exist_ok=True)
shutil.copy(os.path.join(src, 'm%s.diff' % k), os.path.join(dst, 'patch.diff'))
for d in glob.glob(os.path.join(src, 'm%s_demo*' % k)):
    shutil.copy(d, os.path.join(dst, 'demo_test.go' if d.endswith('_test.go') else os.path.basename(d)))
notes = open(os.path.join(src, 'm%s.md' % k)).read()
open(os.path.join(dst, 'author_notes.md'), 'w').write(notes)
lines = [l.strip() for l in open(log) if l.startswith('SEED %s m%s' % (p, k))]
conf = [l for l in lines if 'suite=' in l]
det = [l for l in lines if 'check=' in l]
caught = sorted({re.search(r'check=(\S+)', l).group(1) for l in det if ' exit=1 ' in l})
fps = sorted({f for l in det for f in re.findall(r'fingerprint=(\S+)', l)})
meta = {
    'property': p, 'round': int(rnd),
    'author': 'independent sub-agent given only the property text, the titles of the earlier seeded changes for the property and a scratch worktree of /repo @ babed52',
    'needs_to_manifest': notes[:1500],
    'confirmed_by': 'tools/seedcheck.sh with SEED_BASE=%s: patch applied to a scratch worktree of /repo, repository suite run twice, demonstration fails with the patch and passes without it (%s)' % (base, '; '.join(conf)),
    'detected_by_checks': caught,
    'example_fingerprints': ' '.join(fps[:6]),
    'history': hist,
    'ran': '; '.join(det),
}
json.dump(meta, open(os.path.join(dst, 'meta.json'), 'w'), indent=1)
print(dst, 'caught by', caught or 'NOTHING')
