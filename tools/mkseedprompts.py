#!/usr/bin/env python3
"""usage: mkseedprompts.py <base-dir> <round-word>
Creates <base>/<id>/{repo (scratch worktree of /repo HEAD),out/,PROMPT.md} for every property: the prompt a fresh
sub-agent gets in order to write two seeded changes. It carries the property text and the titles of the changes
already archived under seeded/ (to avoid repeats) and nothing else from /verif."""
import json, os, subprocess, sys, glob
base, rnd = sys.argv[1], sys.argv[2]
root = os.path.dirname(os.path.dirname(os.path.abspath(__file__)))
props = [json.loads(l) for l in open(os.path.join(root, 'properties.jsonl'))]
tmpl = open(os.path.join(root, 'tools', 'seedprompt.tmpl')).read()
for p in props:
    pid = p['id']
    d = os.path.join(base, pid)
    os.makedirs(os.path.join(d, 'out'), exist_ok=True)
    wt = os.path.join(d, 'repo')
    if not os.path.exists(wt):
        subprocess.check_call(['git', '-C', '/repo', 'worktree', 'add', '--detach', wt, 'HEAD'], stdout=subprocess.DEVNULL, stderr=subprocess.DEVNULL)
    titles = []
    for n in sorted(glob.glob(os.path.join(root, 'seeded', pid + '-*', 'author_notes.md'))):
        first = open(n).readline().strip().lstrip('# ').strip()
        if first:
            titles.append('  - ' + first)
    q = p.get('quantifier')
    qt = q.get('text') if isinstance(q, dict) else str(q)
    txt = tmpl.replace('@DIR@', d).replace('@ID@', pid).replace('@TITLE@', p.get('title', '')).replace('@STATEMENT@', p.get('statement', '')) \
        .replace('@QUANT@', qt).replace('@ROUND@', rnd).replace('@PRIOR@', '\n'.join(titles))
    open(os.path.join(d, 'PROMPT.md'), 'w').write(txt)
print('prompts written under', base)
