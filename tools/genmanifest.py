#!/usr/bin/env python3
"""Regenerates /verif/MANIFEST.json from tools/checks.json (one entry per built check)."""
import json, os
root = os.path.dirname(os.path.dirname(os.path.abspath(__file__)))
checks = json.load(open(os.path.join(root, "tools", "checks.json")))
ids = [f"C{i:02d}" for i in range(1, 20)]
m = {
 "version": 1,
 "setup_cmd": "cd /verif && GOFLAGS=-mod=mod GOPROXY=off GOSUMDB=off GOTOOLCHAIN=local go1.26 build -o bin/vcheck ./cmd/vcheck",
 "hooks": {
  "guard": "verif",
  "enable": "no guarded source lives in /repo: every check instruments /repo's current working tree at check time (statement-level yield points inserted textually, same line numbers) and builds the harness with `go1.26 test -c -vet=off [-race] -overlay=<scratch>/overlay.json`; the vhook package exists only in the overlay (DESIGN.md section 3). The tag name is reserved.",
  "baseline_off_cmd": "cd /repo && GOFLAGS=-mod=mod go test -vet=off -count=1 -timeout 25m ./...",
  "source_commits": [],
  "add_only": True,
 },
 "engines": [
  {"name": "vcheck", "path": "cmd/vcheck", "serves_properties": sorted(checks.keys()), "kind_free_text": "driver: overlay injector, harness build, child-process supervision with BEGIN/END crash attribution, race-report parser, known-findings matcher, evidence writer, replay"},
  {"name": "harness", "path": "harness", "serves_properties": sorted(checks.keys()), "kind_free_text": "external Go test module using varmq's public API: episode families in testing/synctest bubbles, client-boundary recorder with a logical clock, trace oracles, reference models, ledger adapters, stall-plan exploration"},
  {"name": "vhook", "path": "vhook/vhook.go.tmpl", "serves_properties": sorted(checks.keys()), "kind_free_text": "//go:norace stall/count/noise hook injected by overlay only"},
 ],
 "checks": [],
 "notes": "runtime monitoring only; see DESIGN.md. Exit codes: 0 held, 1 VIOLATION, 3 INCONCLUSIVE (nothing observed / harness failure).",
 "not_applicable": [],
}
for i in ids:
    if i in checks:
        c = checks[i]
        m["checks"].append({
            "property_id": i,
            "quick_cmd": f"bin/vcheck run {i} --tier quick",
            "thorough_cmd": f"bin/vcheck run {i} --tier thorough",
            "evidence_file": f"/verif/evidence/{i}.json",
            "replay_cmd_template": "bin/vcheck replay {path}",
            "engine": "vcheck",
            "level_claimed": {"category": c["level"], "text": c["text"], "design_ref": c.get("ref", "DESIGN.md section 6")},
            "level_note": c["note"],
            "technique": c["technique"],
        })
    else:
        m["not_applicable"].append({"property_id": i, "reason": "check not built yet (build phase in progress); not a statement that runtime monitoring cannot apply"})
json.dump(m, open(os.path.join(root, "MANIFEST.json"), "w"), indent=1)
print("checks:", len(m["checks"]), "n/a:", len(m["not_applicable"]))
