#!/usr/bin/env python3
"""mkmut.py <out.diff> <file> <old> <new> [<file> <old> <new> ...]: build a patch against /repo HEAD in a scratch worktree."""
import subprocess, sys, os
out = os.path.abspath(sys.argv[1]); args = sys.argv[2:]
wt = f"/tmp/mkmut-{os.getpid()}"
subprocess.run(f"git -C /repo worktree add --detach {wt} HEAD", shell=True, capture_output=True, check=True)
try:
    for i in range(0, len(args), 3):
        f, old, new = args[i:i+3]
        p = os.path.join(wt, f); s = open(p).read()
        old = old.encode().decode('unicode_escape'); new = new.encode().decode('unicode_escape')
        if old not in s: sys.exit(f"pattern not found in {f}: {old[:60]!r}")
        open(p, "w").write(s.replace(old, new, 1))
    r = subprocess.run("GOFLAGS=-mod=mod GOPROXY=off GOTOOLCHAIN=local go1.26 build ./...", shell=True, cwd=wt, capture_output=True, text=True)
    if r.returncode != 0: sys.exit("does not build: " + r.stderr[-800:])
    d = subprocess.run(f"git -C {wt} diff", shell=True, capture_output=True, text=True).stdout
    open(out, "w").write(d); print(out, len(d.splitlines()), "lines")
finally:
    subprocess.run(f"git -C /repo worktree remove --force {wt}", shell=True, capture_output=True)
