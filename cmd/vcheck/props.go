package main

func init() {
	bubble := []string{
		"executions are produced by the Go scheduler on this machine, steered by injected stalls; the verdict covers the executions observed",
		"the overlay-instrumented build behaves like the uninstrumented one when the hook is off (statement-level calls to a no-op)",
		"testing/synctest (go1.26.8) reports durable blocking correctly",
	}
	props["C06"] = propInfo{Level: "exploration", Rule: "episodes = generated client programs (producers, cancels, purge, 1-2 barrier callers) x stall plans (unplanned runs, every single-stall placement at the first K hits of each reached site, sampled pairs); non-trivial = a barrier call overlapped a job's start or finish, or parked behind cancelled/purged jobs; distinct = distinct (client-boundary event-order signature, stall plan)", Assum: bubble}
}
