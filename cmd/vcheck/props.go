package main

func init() {
	bubble := []string{
		"executions are produced by the Go scheduler on this machine, steered by injected stalls; the verdict covers the executions observed",
		"the overlay-instrumented build behaves like the uninstrumented one when the hook is off (statement-level calls to a no-op)",
		"testing/synctest (go1.26.8) reports durable blocking correctly",
	}
	richRule := "episodes = generated client programs of the rich family (1-3 producers with single jobs and AddAll batches, a canceller, a purger, one lifecycle controller with a well-formed script, handle waiters, status and counter samplers; all worker kinds, both in-memory queues, concurrency 1-8, idle expiry on/off) x stall plans (unplanned runs, every single-stall placement at the first K hits of each reached site of the anchored functions [all sites in the thorough tier], sampled pairs); distinct = distinct (client-boundary event-order signature, stall plan); non-trivial = "
	for id, nt := range map[string]string{
		"C01": "the episode ran to its final quiescent point with all oracles evaluated",
		"C03": "the episode reached quiescence with the worker running and the progress predicate evaluated",
		"C05": "a handle waiter was parked before its job's function returned",
		"C09": "a job was accepted or started inside a pause/stop window",
		"C10": "a Close call overlapped the job's dispatch or execution",
		"C16": "a status sampler observed at least one status change",
		"C17": "counter samplers took samples while jobs were moving",
	} {
		props[id] = propInfo{Level: "exploration", Rule: richRule + nt, Assum: bubble}
	}
	gateRule := "episodes = generated operation sequences of the gated family (add / release one gated job / TunePool / Pause / Resume / cancel a pending job / Purge / Stop / Restart / bind another queue / let idle time pass; all worker kinds, in-memory and adapter-backed queues, concurrency 1-6, idle expiry on/off) with a bubble quiescent point after every operation, x stall plans (unplanned, every single-stall placement at the first K hits of each reached anchored site [all sites in thorough], sampled pairs); at every quiescent point the set of executing jobs, pending counts, status, idle-pool size and the goroutine census are compared for equality with a sequential reference model; distinct = distinct (event-order signature, stall plan); non-trivial = "
	for id, nt := range map[string]string{
		"C02": "two or more jobs executed together or a further queue was bound",
		"C04": "jobs were pending while others executed (the model had to choose the next job)",
		"C18": "a TunePool took effect or an idle-expiry trim was evaluated",
	} {
		props[id] = propInfo{Level: "exploration", Rule: gateRule + nt, Assum: bubble}
	}
	props["C14"] = propInfo{Level: "exploration", Rule: "cases = ALL call sequences over {Bind(any of the six bind methods), Pause, PauseAndWait, Resume, Stop, WaitAndStop, Restart, TunePool(new), TunePool(same), cancel the configured context} up to length 4 (quick) / 5 (thorough) x {context, no context} x {idle expiry on/off} x {no jobs, a job submitted before every call and in flight on the fake clock}, enumerated exhaustively, plus random sequences of length 6-20 under stall plans around the asynchronous context listener; after every call the bubble settles and error class, Status and the Is* predicates are compared with the reference machine; a probe job must run iff the reference state is Running and a final Restart must process everything pending; distinct = distinct (configuration, call sequence[, stall plan]); non-trivial = sequences of length >= 2", Assum: bubble, Exhaustive: "all call sequences up to the stated length for each of the 8 configurations (bounded layer only)"}
	props["C06"] = propInfo{Level: "exploration", Rule: "episodes = generated client programs (producers, cancels, purge, 1-2 barrier callers) x stall plans (unplanned runs, every single-stall placement at the first K hits of each reached site, sampled pairs); non-trivial = a barrier call overlapped a job's start or finish, or parked behind cancelled/purged jobs; distinct = distinct (client-boundary event-order signature, stall plan)", Assum: bubble}
}
