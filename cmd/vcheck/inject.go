package main

// Statement-level yield-point injector (DESIGN.md §3.1). It works on whatever the tree
// contains: nothing here names a line of the repository. Insertion is textual and on the
// same line, so every original byte keeps its line number.

import (
	"encoding/json"
	"fmt"
	"go/ast"
	"go/parser"
	"go/token"
	"os"
	"path/filepath"
	"sort"
	"strings"
)

type site struct {
	ID   int    `json:"id"`
	File string `json:"file"`
	Line int    `json:"line"`
	Func string `json:"func"`
}

var libDirs = []string{".", "internal/helpers", "internal/linkedbuffer", "internal/linkedlist", "internal/pool", "internal/queues", "utils", "mocks"}

const modPath = "github.com/goptics/varmq"

// inject writes the instrumented copies, the vhook package, overlay.json and sites.json into out.
func inject(src, out, hookTmpl string) (nsites int, err error) {
	if err = os.MkdirAll(out, 0o755); err != nil {
		return
	}
	overlay := map[string]string{}
	var sites []site
	// site 0 is reserved (never hit)
	sites = append(sites, site{0, "", 0, ""})
	for _, d := range libDirs {
		ents, e := os.ReadDir(filepath.Join(src, d))
		if e != nil {
			continue
		}
		for _, e := range ents {
			n := e.Name()
			if e.IsDir() || !strings.HasSuffix(n, ".go") || strings.HasSuffix(n, "_test.go") {
				continue
			}
			p := filepath.Join(src, d, n)
			b, e2 := os.ReadFile(p)
			if e2 != nil {
				return 0, e2
			}
			fset := token.NewFileSet()
			f, e2 := parser.ParseFile(fset, p, b, parser.ParseComments)
			if e2 != nil {
				return 0, fmt.Errorf("parse %s: %w", p, e2)
			}
			type ins struct {
				off int
				txt string
			}
			var inss []ins
			rel := filepath.Join(d, n)
			var curFunc string
			addList := func(list []ast.Stmt) {
				for _, s := range list {
					switch s.(type) {
					case *ast.CaseClause, *ast.CommClause:
						continue
					}
					// a labeled statement must stay the target of its label
					if ls, ok := s.(*ast.LabeledStmt); ok {
						_ = ls
						continue
					}
					id := len(sites)
					pos := fset.Position(s.Pos())
					sites = append(sites, site{id, rel, pos.Line, curFunc})
					inss = append(inss, ins{pos.Offset, fmt.Sprintf("vhook.P(%d); ", id)})
				}
			}
			for _, decl := range f.Decls {
				fd, ok := decl.(*ast.FuncDecl)
				if !ok || fd.Body == nil {
					continue
				}
				curFunc = fd.Name.Name
				if fd.Recv != nil && len(fd.Recv.List) > 0 {
					t := fd.Recv.List[0].Type
					if st, ok := t.(*ast.StarExpr); ok {
						t = st.X
					}
					if ix, ok := t.(*ast.IndexExpr); ok {
						t = ix.X
					}
					if ix, ok := t.(*ast.IndexListExpr); ok {
						t = ix.X
					}
					if id, ok := t.(*ast.Ident); ok {
						curFunc = id.Name + "." + curFunc
					}
				}
				ast.Inspect(fd.Body, func(nd ast.Node) bool {
					switch x := nd.(type) {
					case *ast.BlockStmt:
						addList(x.List)
					case *ast.CaseClause:
						addList(x.Body)
					case *ast.CommClause:
						addList(x.Body)
					}
					return true
				})
			}
			if len(inss) == 0 {
				continue
			}
			pkgEnd := fset.Position(f.Name.End()).Offset
			inss = append(inss, ins{pkgEnd, fmt.Sprintf("; import vhook %q", modPath+"/vhook")})
			sort.SliceStable(inss, func(i, j int) bool { return inss[i].off < inss[j].off })
			var sb strings.Builder
			last := 0
			for _, in := range inss {
				sb.Write(b[last:in.off])
				sb.WriteString(in.txt)
				last = in.off
			}
			sb.Write(b[last:])
			op := filepath.Join(out, strings.ReplaceAll(rel, "/", "__"))
			if err = os.WriteFile(op, []byte(sb.String()), 0o644); err != nil {
				return
			}
			overlay[p] = op
		}
	}
	hb, e := os.ReadFile(hookTmpl)
	if e != nil {
		return 0, e
	}
	hp := filepath.Join(out, "vhook.go")
	if err = os.WriteFile(hp, []byte(strings.ReplaceAll(string(hb), "NSITES", fmt.Sprint(len(sites)))), 0o644); err != nil {
		return
	}
	overlay[filepath.Join(src, "vhook", "vhook.go")] = hp
	ob, _ := json.MarshalIndent(map[string]any{"Replace": overlay}, "", " ")
	if err = os.WriteFile(filepath.Join(out, "overlay.json"), ob, 0o644); err != nil {
		return
	}
	sb, _ := json.Marshal(sites)
	err = os.WriteFile(filepath.Join(out, "sites.json"), sb, 0o644)
	return len(sites), err
}
