// vcheck: driver of the runtime-monitoring checks for goptics/varmq (DESIGN.md §8).
//
//	vcheck run <property> [--tier quick|thorough]   instrument /repo, build the harness, run the episodes
//	vcheck replay <file> [-n 50]                    re-run one recorded case n times
//	vcheck inject <out-dir>                         only write the overlay (debugging)
//
// Exit status: 0 held, 1 VIOLATION, 3 INCONCLUSIVE (nothing observed / harness failure).
package main

import (
	"bufio"
	"bytes"
	"encoding/json"
	"fmt"
	"os"
	"os/exec"
	"path/filepath"
	"runtime"
	"sort"
	"strconv"
	"strings"
	"sync"
	"syscall"
	"time"
)

var (
	verifRoot = "/verif"
	repoRoot  = "/repo"
)

func goEnv() []string {
	env := os.Environ()
	env = append(env, "GOFLAGS=-mod=mod", "GOPROXY=off", "GOSUMDB=off", "GOTOOLCHAIN=local", "CGO_ENABLED=1")
	return env
}

func die(code int, f string, a ...any) {
	fmt.Printf(f+"\n", a...)
	os.Exit(code)
}

func main() {
	if wd, err := os.Getwd(); err == nil {
		if _, e := os.Stat(filepath.Join(wd, "harness")); e == nil {
			verifRoot = wd
		}
	}
	if v := os.Getenv("VERIF_ROOT"); v != "" {
		verifRoot = v
	}
	if v := os.Getenv("VERIF_REPO"); v != "" {
		repoRoot = v
	}
	if len(os.Args) < 2 {
		die(2, "usage: vcheck run <property> [--tier quick|thorough] | replay <file> [-n N] | inject <dir>")
	}
	switch os.Args[1] {
	case "inject":
		n, err := inject(repoRoot, os.Args[2], filepath.Join(verifRoot, "vhook", "vhook.go.tmpl"))
		if err != nil {
			die(3, "inject: %v", err)
		}
		fmt.Println("sites", n)
	case "run":
		if len(os.Args) < 3 {
			die(2, "usage: vcheck run <property> [--tier quick|thorough]")
		}
		prop := os.Args[2]
		tier := os.Getenv("VERIF_TIER")
		for i := 3; i < len(os.Args); i++ {
			if os.Args[i] == "--tier" && i+1 < len(os.Args) {
				tier = os.Args[i+1]
			}
		}
		if tier != "thorough" {
			tier = "quick"
		}
		seed := int64(1)
		if v := os.Getenv("VERIF_SEED"); v != "" {
			if s, err := strconv.ParseInt(v, 10, 64); err == nil {
				seed = s
			}
		}
		only := ""
		for i := 3; i < len(os.Args); i++ {
			if os.Args[i] == "--only" && i+1 < len(os.Args) {
				only = os.Args[i+1] // debugging: run one program (full name "<index>#<name>") in one shard
			}
		}
		os.Exit(runProperty(prop, tier, seed, only))
	case "replay":
		if len(os.Args) < 3 {
			die(2, "usage: vcheck replay <file> [-n N]")
		}
		n := 30
		for i := 3; i < len(os.Args); i++ {
			if os.Args[i] == "-n" && i+1 < len(os.Args) {
				n, _ = strconv.Atoi(os.Args[i+1])
			}
		}
		os.Exit(replay(os.Args[2], n))
	default:
		die(2, "unknown command %s", os.Args[1])
	}
}

// ---------------------------------------------------------------------------------------
// build

type build struct {
	scratch string
	bin     string
	sites   string
	nsites  int
	race    bool
}

func copyFile(dst, src string) error {
	b, err := os.ReadFile(src)
	if err != nil {
		return err
	}
	return os.WriteFile(dst, b, 0o644)
}

// prepare instruments repoRoot's working tree and builds the harness test binary in a fresh scratch dir.
func prepare(race bool) (*build, error) {
	scratch, err := os.MkdirTemp("", "vcheck-")
	if err != nil {
		return nil, err
	}
	b := &build{scratch: scratch, race: race}
	ovl := filepath.Join(scratch, "ovl")
	b.nsites, err = inject(repoRoot, ovl, filepath.Join(verifRoot, "vhook", "vhook.go.tmpl"))
	if err != nil {
		return b, fmt.Errorf("inject: %w", err)
	}
	b.sites = filepath.Join(ovl, "sites.json")
	h := filepath.Join(scratch, "h")
	os.MkdirAll(h, 0o755)
	ents, err := os.ReadDir(filepath.Join(verifRoot, "harness"))
	if err != nil {
		return b, err
	}
	for _, e := range ents {
		if strings.HasSuffix(e.Name(), ".go") {
			if err := copyFile(filepath.Join(h, e.Name()), filepath.Join(verifRoot, "harness", e.Name())); err != nil {
				return b, err
			}
		}
	}
	gomod := "module vharness\n\ngo 1.26\n\nrequire (\n\tgithub.com/anishathalye/porcupine v1.3.0\n\tgithub.com/goptics/varmq v0.0.0\n)\n\nreplace github.com/goptics/varmq => " + repoRoot + "\n"
	os.WriteFile(filepath.Join(h, "go.mod"), []byte(gomod), 0o644)
	// go.sum: the repository's own sums plus the harness' extra dependency
	sum, _ := os.ReadFile(filepath.Join(repoRoot, "go.sum"))
	extra, _ := os.ReadFile(filepath.Join(verifRoot, "harness", "go.sum.extra"))
	os.WriteFile(filepath.Join(h, "go.sum"), append(sum, extra...), 0o644)
	b.bin = filepath.Join(scratch, "h.test")
	args := []string{"test", "-c", "-vet=off", "-overlay=" + filepath.Join(ovl, "overlay.json"), "-o", b.bin}
	if race {
		args = append(args, "-race")
	}
	args = append(args, ".")
	cmd := exec.Command("go1.26", args...)
	cmd.Dir = h
	cmd.Env = goEnv()
	out, err := cmd.CombinedOutput()
	if err != nil {
		return b, fmt.Errorf("harness build failed: %v\n%s", err, out)
	}
	return b, nil
}

func (b *build) cleanup() {
	if b != nil && b.scratch != "" && os.Getenv("VCHECK_KEEP") == "" {
		os.RemoveAll(b.scratch)
	}
}

// ---------------------------------------------------------------------------------------
// child protocol

type violation struct {
	Rule   string `json:"rule"`
	FP     string `json:"fp"`
	Detail string `json:"detail"`
}

type caseResult struct {
	V      []violation        `json:"v,omitempty"`
	Sig    string             `json:"sig,omitempty"`
	NT     bool               `json:"nt,omitempty"`
	St     map[string]float64 `json:"st,omitempty"`
	Sample json.RawMessage    `json:"sample,omitempty"`
	Log    []string           `json:"log,omitempty"`
	Inc    string             `json:"inc,omitempty"` // inconclusive reason
}

type caseSpec struct {
	Prog string          `json:"prog"`
	Case int             `json:"case"`
	Spec json.RawMessage `json:"spec,omitempty"`
}

type foundViolation struct {
	violation
	Spec    caseSpec
	Log     []string
	Stderr  string
	Shard   int
	Replay  string
	Known   bool
	Crashed bool
}

type agg struct {
	mu          sync.Mutex
	evals       int
	nontrivial  int
	sigs        map[string]struct{}
	ntSigs      map[string]struct{}
	stSum       map[string]float64
	stMax       map[string]float64
	samples     []json.RawMessage
	viol        []foundViolation
	inconcl     []string
	crashes     int
	watchdog    int
	raceReports int
	raceAborts  int
}

func newAgg() *agg {
	return &agg{sigs: map[string]struct{}{}, ntSigs: map[string]struct{}{}, stSum: map[string]float64{}, stMax: map[string]float64{}}
}

func (a *agg) add(spec caseSpec, r *caseResult, shard int) {
	a.mu.Lock()
	defer a.mu.Unlock()
	a.evals++
	if r.Sig != "" {
		a.sigs[r.Sig] = struct{}{}
	}
	if r.NT {
		a.nontrivial++
		if r.Sig != "" {
			a.ntSigs[r.Sig] = struct{}{}
		}
	}
	for k, v := range r.St {
		if strings.HasPrefix(k, "max_") {
			if v > a.stMax[k] {
				a.stMax[k] = v
			}
		} else {
			a.stSum[k] += v
		}
	}
	if len(r.Sample) > 0 && len(a.samples) < 6 {
		a.samples = append(a.samples, r.Sample)
	}
	if r.Inc != "" {
		a.inconcl = append(a.inconcl, spec.Prog+": "+r.Inc)
	}
	for _, v := range r.V {
		a.viol = append(a.viol, foundViolation{violation: v, Spec: spec, Log: r.Log, Shard: shard})
	}
}

// runShard runs one child over its share of the programs, restarting it after a crash.
func runShard(b *build, prop, tier string, seed int64, shard, nshards int, a *agg, only string, extraEnv []string) {
	skipProg, skipCase := -1, -1
	watchdogs := 0
	for attempt := 0; attempt < 40 && watchdogs < 2; attempt++ {
		outPath := filepath.Join(b.scratch, fmt.Sprintf("out.%d.%d", shard, attempt))
		errPath := filepath.Join(b.scratch, fmt.Sprintf("err.%d.%d", shard, attempt))
		racePath := filepath.Join(b.scratch, fmt.Sprintf("race.%d.%d", shard, attempt))
		errF, _ := os.Create(errPath)
		cmd := exec.Command(b.bin, "-test.run=^TestVerif$", "-test.timeout=0", "-test.count=1")
		cmd.Dir = b.scratch
		cmd.Env = append(os.Environ(),
			"VH_PROP="+prop, "VH_TIER="+tier, fmt.Sprintf("VH_SEED=%d", seed),
			fmt.Sprintf("VH_SHARD=%d", shard), fmt.Sprintf("VH_NSHARDS=%d", nshards),
			"VH_OUT="+outPath, "VH_SITES="+b.sites, "VH_REPO="+repoRoot,
			fmt.Sprintf("VH_SKIP=%d:%d", skipProg, skipCase),
			"VH_ONLY="+only,
			"GORACE=halt_on_error=0 exitcode=0 log_path="+racePath,
		)
		// some shards run with a GOMAXPROCS that differs from the number of CPUs (more, and far fewer)
		switch shard % 4 {
		case 1:
			cmd.Env = append(cmd.Env, fmt.Sprintf("GOMAXPROCS=%d", 2*runtime.NumCPU()+3))
		case 3:
			cmd.Env = append(cmd.Env, "GOMAXPROCS=3")
		}
		cmd.Env = append(cmd.Env, extraEnv...)
		cmd.Stdout = errF
		cmd.Stderr = errF
		if err := cmd.Start(); err != nil {
			a.mu.Lock()
			a.inconcl = append(a.inconcl, "cannot start child: "+err.Error())
			a.mu.Unlock()
			return
		}
		done := make(chan error, 1)
		go func() { done <- cmd.Wait() }()
		// watchdog: no progress (output file growth) for a long time => SIGQUIT dump
		var lastSize int64 = -1
		lastChange := time.Now()
		// generous: a case is normally milliseconds (seconds for the 260 K-job bursts of the thorough tier); the
		// firing of this watchdog is never a verdict by itself (the dump decides between hang and inconclusive)
		stall := 420 * time.Second
		if b.race {
			stall = 900 * time.Second
		}
		if v, err := strconv.Atoi(os.Getenv("VCHECK_STALL_S")); err == nil && v > 0 {
			stall = time.Duration(v) * time.Second // mutant runs: a hanging change need not be waited for that long
		}
		var werr error
		watchdogFired := false
	wait:
		for {
			select {
			case werr = <-done:
				break wait
			case <-time.After(2 * time.Second):
				if fi, err := os.Stat(outPath); err == nil && fi.Size() != lastSize {
					lastSize = fi.Size()
					lastChange = time.Now()
				}
				if time.Since(lastChange) > stall && !watchdogFired {
					watchdogFired = true
					cmd.Process.Signal(syscall.SIGQUIT)
					go func() { time.Sleep(10 * time.Second); cmd.Process.Kill() }()
				}
			}
		}
		errF.Close()
		// parse output
		open, finished := parseOut(outPath, a, shard)
		a.countRaces(b, racePath, prop, shard)
		if finished && werr == nil {
			return
		}
		stderr, _ := os.ReadFile(errPath)
		full := string(stderr)
		// classify on the complete dump; only the stored copy is shortened
		parked := dumpAllParked(full)
		frames := hangFrames(full)
		st := full
		if len(st) > 60000 {
			st = st[:30000] + "\n...\n" + st[len(st)-28000:]
		}
		if open == nil {
			// died outside any case
			a.mu.Lock()
			if finished {
				// all cases reported but the process failed afterwards
				a.inconcl = append(a.inconcl, fmt.Sprintf("shard %d: child failed after finishing: %v: %s", shard, werr, tail(st, 600)))
			} else {
				a.inconcl = append(a.inconcl, fmt.Sprintf("shard %d: child died outside a case: %v: %s", shard, werr, tail(st, 1500)))
			}
			a.mu.Unlock()
			return
		}
		// attribute the death to the open case
		a.mu.Lock()
		if watchdogFired {
			watchdogs++
			a.watchdog++
			if parked {
				a.viol = append(a.viol, foundViolation{violation: violation{Rule: "hang", FP: prop + "/hang/process-stuck/" + frames, Detail: "child made no progress; SIGQUIT dump shows no runnable goroutine of the module or harness"}, Spec: *open, Stderr: st, Shard: shard, Crashed: true})
			} else {
				a.inconcl = append(a.inconcl, fmt.Sprintf("shard %d: watchdog fired in %s case %d, dump not conclusive", shard, open.Prog, open.Case))
			}
		} else if b.race && strings.Contains(st, "race detected during execution of test") && !strings.Contains(st, "panic: ") && !strings.Contains(st, "fatal error: ") {
			// the testing package aborts the test function at the first bubble in which the detector fired;
			// the report itself is in the GORACE log (counted above): carry on after that case
			a.raceAborts++
		} else {
			a.crashes++
			msg, frame := panicInfo(st)
			a.viol = append(a.viol, foundViolation{violation: violation{Rule: "crash", FP: prop + "/crash/" + msg + "@" + frame, Detail: "process died during the case: " + msg}, Spec: *open, Stderr: st, Shard: shard, Crashed: true})
		}
		a.mu.Unlock()
		skipProg, skipCase = progIndex(open), open.Case
		_ = skipProg
		// restart after the crashed case
		sp := strings.SplitN(open.Prog, "#", 2)
		pi, _ := strconv.Atoi(sp[0])
		skipProg = pi
	}
}

func progIndex(c *caseSpec) int {
	sp := strings.SplitN(c.Prog, "#", 2)
	pi, _ := strconv.Atoi(sp[0])
	return pi
}

func tail(s string, n int) string {
	if len(s) > n {
		return s[len(s)-n:]
	}
	return s
}

func parseOut(path string, a *agg, shard int) (open *caseSpec, finished bool) {
	f, err := os.Open(path)
	if err != nil {
		return nil, false
	}
	defer f.Close()
	sc := bufio.NewScanner(f)
	sc.Buffer(make([]byte, 1<<20), 64<<20)
	for sc.Scan() {
		line := sc.Bytes()
		if len(line) < 2 {
			continue
		}
		switch line[0] {
		case 'B':
			var s caseSpec
			if json.Unmarshal(line[2:], &s) == nil {
				open = &s
			}
		case 'E':
			var r caseResult
			if json.Unmarshal(line[2:], &r) == nil && open != nil {
				a.add(*open, &r, shard)
			}
			open = nil
		case 'D':
			finished = true
		case 'I':
			a.mu.Lock()
			a.inconcl = append(a.inconcl, string(line[2:]))
			a.mu.Unlock()
		}
	}
	return
}

// panicInfo extracts the panic/fatal message and the innermost module frame from a Go crash dump.
func panicInfo(st string) (msg, frame string) {
	msg, frame = "unknown", "unknown"
	lines := strings.Split(st, "\n")
	start := -1
	for i, l := range lines {
		if strings.HasPrefix(l, "panic: ") || strings.HasPrefix(l, "fatal error: ") {
			msg = strings.TrimPrefix(strings.TrimPrefix(l, "panic: "), "fatal error: ")
			if i := strings.Index(msg, " [recovered]"); i > 0 {
				msg = msg[:i]
			}
			start = i
			break
		}
	}
	if start < 0 {
		if strings.Contains(st, "signal: killed") {
			msg = "killed"
		}
		return
	}
	// normalise numbers in the message
	msg = normNums(msg)
	for _, l := range lines[start:] {
		if strings.HasPrefix(l, modPath) && !strings.Contains(l, "/vhook.") {
			fn := l
			if i := strings.LastIndex(fn, "("); i > 0 {
				fn = fn[:i]
			}
			fn = strings.TrimPrefix(fn, modPath)
			fn = stripTypeParams(fn)
			frame = fn
			break
		}
	}
	return
}

func normNums(s string) string {
	var sb strings.Builder
	inNum := false
	for _, r := range s {
		if r >= '0' && r <= '9' {
			if !inNum {
				sb.WriteByte('N')
				inNum = true
			}
			continue
		}
		inNum = false
		sb.WriteRune(r)
	}
	return sb.String()
}

func stripTypeParams(fn string) string {
	for {
		i := strings.Index(fn, "[")
		if i < 0 {
			return fn
		}
		depth := 0
		j := i
		for ; j < len(fn); j++ {
			if fn[j] == '[' {
				depth++
			} else if fn[j] == ']' {
				depth--
				if depth == 0 {
					break
				}
			}
		}
		if j >= len(fn) {
			return fn[:i]
		}
		fn = fn[:i] + fn[j+1:]
	}
}

// dumpAllParked implements the hang rule of DESIGN.md §4.4 on a SIGQUIT dump: no goroutine with a frame of
// the module or the harness is running/runnable/in a syscall.
func dumpAllParked(st string) bool {
	blocks := strings.Split(st, "\n\n")
	seen, bodySeen := false, false
	for _, b := range blocks {
		if !strings.HasPrefix(b, "goroutine ") {
			continue
		}
		hdr := b
		if i := strings.Index(b, "\n"); i > 0 {
			hdr = b[:i]
		}
		// any goroutine that can still run (other than the runtime's own helpers) makes the dump inconclusive
		if strings.Contains(hdr, "[running") || strings.Contains(hdr, "[runnable") || strings.Contains(hdr, "[syscall") || strings.Contains(hdr, "[sleep") {
			if strings.Contains(b, "runtime.bgsweep") || strings.Contains(b, "runtime.bgscavenge") || strings.Contains(b, "runtime.gcBgMarkWorker") || strings.Contains(b, "runtime.forcegchelper") || strings.Contains(b, "os/signal.") {
				continue
			}
			return false
		}
		if strings.Contains(b, modPath) || strings.Contains(b, "vharness") {
			seen = true
		}
		// the goroutine that drives the episode must be in the dump, otherwise the dump is incomplete
		if strings.Contains(b, "vharness.RunBubble.func") || strings.Contains(b, "vharness.epRace") {
			bodySeen = true
		}
	}
	return seen && bodySeen
}

func hangFrames(st string) string {
	set := map[string]struct{}{}
	for _, b := range strings.Split(st, "\n\n") {
		if !strings.HasPrefix(b, "goroutine ") {
			continue
		}
		for _, l := range strings.Split(b, "\n") {
			if strings.HasPrefix(l, modPath) && !strings.Contains(l, "/vhook.") {
				fn := l
				if i := strings.LastIndex(fn, "("); i > 0 {
					fn = fn[:i]
				}
				set[stripTypeParams(strings.TrimPrefix(fn, modPath))] = struct{}{}
				break
			}
		}
	}
	var ks []string
	for k := range set {
		ks = append(ks, k)
	}
	sort.Strings(ks)
	if len(ks) > 4 {
		ks = ks[:4]
	}
	return strings.Join(ks, "|")
}

// ---------------------------------------------------------------------------------------
// race reports (C19)

func (a *agg) countRaces(b *build, prefix, prop string, shard int) {
	if !b.race {
		return
	}
	matches, _ := filepath.Glob(prefix + ".*")
	for _, m := range matches {
		data, err := os.ReadFile(m)
		if err != nil {
			continue
		}
		for _, blk := range strings.Split(string(data), "==================") {
			if !strings.Contains(blk, "WARNING: DATA RACE") {
				continue
			}
			fa, fb, lib := raceSides(blk)
			a.mu.Lock()
			a.raceReports++
			if lib {
				pair := []string{fa, fb}
				sort.Strings(pair)
				a.viol = append(a.viol, foundViolation{violation: violation{Rule: "race", FP: "C19/race/" + pair[0] + "|" + pair[1], Detail: "data race reported by the Go race detector"}, Stderr: blk, Shard: shard, Spec: caseSpec{Prog: "race-report"}})
			} else {
				a.inconcl = append(a.inconcl, "HARNESS-RACE (both sides outside the module): "+fa+" | "+fb)
			}
			a.mu.Unlock()
		}
		os.Remove(m)
	}
}

// raceSides returns the innermost module function of the two accesses of one race report
// (type parameters and line numbers stripped) and whether either side is in the module.
func raceSides(blk string) (string, string, bool) {
	secs := []string{}
	cur := []string{}
	flush := func() {
		if len(cur) > 0 {
			secs = append(secs, strings.Join(cur, "\n"))
		}
		cur = nil
	}
	for _, l := range strings.Split(blk, "\n") {
		t := strings.TrimSpace(l)
		if strings.HasPrefix(t, "Write at") || strings.HasPrefix(t, "Read at") || strings.HasPrefix(t, "Previous write at") || strings.HasPrefix(t, "Previous read at") ||
			strings.HasPrefix(t, "Goroutine ") || strings.HasPrefix(t, "Atomic") || strings.HasPrefix(t, "Previous atomic") {
			flush()
		}
		cur = append(cur, l)
	}
	flush()
	var sides []string
	lib := false
	for _, s := range secs {
		t := strings.TrimSpace(s)
		if !(strings.HasPrefix(t, "Write at") || strings.HasPrefix(t, "Read at") || strings.HasPrefix(t, "Previous ") || strings.HasPrefix(t, "Atomic")) {
			continue
		}
		fn := "?"
		first := ""
		for _, l := range strings.Split(s, "\n")[1:] {
			l = strings.TrimSpace(l)
			if l == "" || strings.HasPrefix(l, "/") {
				continue
			}
			name := l
			if i := strings.LastIndex(name, "("); i > 0 {
				name = name[:i]
			}
			if first == "" {
				first = name
			}
			if strings.HasPrefix(name, modPath) && !strings.Contains(name, "/vhook.") {
				fn = stripTypeParams(strings.TrimPrefix(name, modPath))
				lib = true
				break
			}
		}
		if fn == "?" {
			fn = "ext:" + stripTypeParams(first)
		}
		sides = append(sides, fn)
	}
	for len(sides) < 2 {
		sides = append(sides, "?")
	}
	return sides[0], sides[1], lib
}

// ---------------------------------------------------------------------------------------
// known findings

type finding struct {
	Property    string `json:"property"`
	Fingerprint string `json:"fingerprint"`
	What        string `json:"what"`
	Status      string `json:"status,omitempty"`
	Commit      string `json:"commit,omitempty"`
}

type findingsFile struct {
	Findings []finding `json:"findings"`
	Fixed    []finding `json:"fixed"`
}

func loadFindings() findingsFile {
	var ff findingsFile
	b, err := os.ReadFile(filepath.Join(verifRoot, "KNOWN_FINDINGS.json"))
	if err == nil {
		json.Unmarshal(b, &ff)
	}
	return ff
}

// ---------------------------------------------------------------------------------------
// run

type propInfo struct {
	Level      string
	Race       bool
	Rule       string
	Assum      []string
	Exhaustive string // names the layer that is enumerated completely (reported only for a complete run)
}

var props = map[string]propInfo{}

func runProperty(prop, tier string, seed int64, only string) int {
	t0 := time.Now()
	info, ok := props[prop]
	if !ok {
		fmt.Printf("INCONCLUSIVE property=%s reason=unknown property\n", prop)
		return 3
	}
	b, err := prepare(info.Race)
	defer b.cleanup()
	if err != nil {
		fmt.Printf("INCONCLUSIVE property=%s reason=%v\n", prop, err)
		return 3
	}
	buildS := time.Since(t0).Seconds()
	nshards := runtime.NumCPU()
	if only != "" {
		nshards = 1
	}
	if v := os.Getenv("VCHECK_SHARDS"); v != "" {
		nshards, _ = strconv.Atoi(v)
	}
	if nshards < 1 {
		nshards = 1
	}
	a := newAgg()
	var wg sync.WaitGroup
	for s := 0; s < nshards; s++ {
		wg.Add(1)
		go func(s int) {
			defer wg.Done()
			runShard(b, prop, tier, seed, s, nshards, a, only, nil)
		}(s)
	}
	wg.Wait()
	return report(prop, tier, seed, info, a, b, buildS, time.Since(t0).Seconds())
}

func gitDescribe() string {
	out, err := exec.Command("git", "-C", repoRoot, "rev-parse", "--short", "HEAD").Output()
	s := strings.TrimSpace(string(out))
	if err != nil {
		s = "unknown"
	}
	st, _ := exec.Command("git", "-C", repoRoot, "status", "--porcelain", "--untracked-files=no").Output()
	if len(bytes.TrimSpace(st)) > 0 {
		s += "-dirty"
	}
	return s
}

func report(prop, tier string, seed int64, info propInfo, a *agg, b *build, buildS, wall float64) int {
	ff := loadFindings()
	known := map[string]*finding{}
	for i := range ff.Findings {
		f := &ff.Findings[i]
		if f.Property == prop && (f.Status == "" || f.Status == "open") {
			known[f.Fingerprint] = f
		}
	}
	knownSeen := map[string]int{}
	var fresh []foundViolation
	for _, v := range a.viol {
		if _, ok := known[v.FP]; ok {
			knownSeen[v.FP]++
			continue
		}
		fresh = append(fresh, v)
	}
	for fp, f := range known {
		if n := knownSeen[fp]; n > 0 {
			fmt.Printf("KNOWN-FINDING: property=%s %s (fingerprint %s; observed %d times this run)\n", prop, f.What, fp, n)
		} else {
			fmt.Printf("KNOWN-FINDING: property=%s %s (fingerprint %s; not observed this run)\n", prop, f.What, fp)
		}
	}
	// replay files for fresh violations (one per fingerprint, first witness)
	byFP := map[string][]foundViolation{}
	var fps []string
	for _, v := range fresh {
		if _, ok := byFP[v.FP]; !ok {
			fps = append(fps, v.FP)
		}
		byFP[v.FP] = append(byFP[v.FP], v)
	}
	sort.Strings(fps)
	rdir := filepath.Join(verifRoot, "replays", prop)
	if v := os.Getenv("VERIF_REPLAY_DIR"); v != "" {
		rdir = filepath.Join(v, prop)
	}
	if len(fps) > 0 {
		os.MkdirAll(rdir, 0o755)
	}
	for i, fp := range fps {
		v := byFP[fp][0]
		rp := filepath.Join(rdir, fmt.Sprintf("%s-%d-%d.json", tier, seed, i))
		rb, _ := json.MarshalIndent(map[string]any{
			"property": prop, "tier": tier, "seed": seed, "fingerprint": fp, "rule": v.Rule, "detail": v.Detail,
			"prog": v.Spec.Prog, "case": v.Spec.Case, "spec": v.Spec.Spec, "log": v.Log, "stderr": v.Stderr,
			"occurrences": len(byFP[fp]), "tree": gitDescribe(), "race": info.Race,
		}, "", " ")
		os.WriteFile(rp, rb, 0o644)
		fmt.Printf("VIOLATION property=%s replay=%s\n", prop, rp)
		fmt.Printf("  fingerprint=%s occurrences=%d\n  %s\n", fp, len(byFP[fp]), oneLine(v.Detail, 400))
	}
	// evidence
	cov := map[string]any{
		"evaluations":         a.evals,
		"distinct_nontrivial": len(a.ntSigs),
		"nontrivial":          a.nontrivial,
		"distinct_signatures": len(a.sigs),
		"rule":                info.Rule,
		"samples":             a.samples,
		"sites_total":         b.nsites,
		"crashes":             a.crashes,
		"watchdog_firings":    a.watchdog,
		"inconclusive":        len(a.inconcl),
		"known_findings_seen": knownSeen,
		"go_version":          "go1.26.8",
		"gomaxprocs":          runtime.NumCPU(),
		"tree":                gitDescribe(),
		"build_s":             round1(buildS),
	}
	if info.Race {
		cov["race_reports"] = a.raceReports
		cov["race_aborted_shard_restarts"] = a.raceAborts
	}
	if info.Exhaustive != "" && a.crashes == 0 && len(a.inconcl) == 0 {
		cov["exhaustive"] = true
		cov["exhaustive_layer"] = info.Exhaustive
	}
	for k, v := range a.stSum {
		cov[k] = v
	}
	for k, v := range a.stMax {
		cov[k] = v
	}
	if len(a.samples) == 0 {
		cov["samples"] = []any{}
	}
	ev := map[string]any{
		"property_id": prop, "tier": tier, "seed": seed, "level": info.Level,
		"coverage": cov, "assumptions": info.Assum, "wall_s": round1(wall), "violations": len(fresh),
	}
	eb, _ := json.MarshalIndent(ev, "", " ")
	edir := filepath.Join(verifRoot, "evidence")
	if v := os.Getenv("VERIF_EVIDENCE_DIR"); v != "" {
		edir = v
	}
	os.MkdirAll(edir, 0o755)
	os.WriteFile(filepath.Join(edir, prop+".json"), eb, 0o644)

	fmt.Printf("property=%s tier=%s seed=%d evaluations=%d nontrivial=%d distinct_nontrivial=%d crashes=%d inconclusive=%d wall=%.1fs (build %.1fs)\n",
		prop, tier, seed, a.evals, a.nontrivial, len(a.ntSigs), a.crashes, len(a.inconcl), wall, buildS)
	if len(fps) > 0 {
		return 1
	}
	if len(a.inconcl) > 0 {
		for i, s := range a.inconcl {
			if i < 5 {
				fmt.Printf("  inconclusive: %s\n", oneLine(s, 600))
			}
		}
		fmt.Printf("INCONCLUSIVE property=%s reason=%d inconclusive episodes or harness failures\n", prop, len(a.inconcl))
		return 3
	}
	if a.evals == 0 || len(a.ntSigs) < 2 {
		fmt.Printf("INCONCLUSIVE property=%s reason=vacuity guard: evaluations=%d distinct_nontrivial=%d\n", prop, a.evals, len(a.ntSigs))
		return 3
	}
	return 0
}

func round1(f float64) float64 { return float64(int(f*10+0.5)) / 10 }

func oneLine(s string, n int) string {
	s = strings.ReplaceAll(s, "\n", " | ")
	if len(s) > n {
		s = s[:n] + "..."
	}
	return s
}

// ---------------------------------------------------------------------------------------
// replay

func replay(path string, n int) int {
	rb, err := os.ReadFile(path)
	if err != nil {
		die(2, "replay: %v", err)
	}
	var r struct {
		Property    string          `json:"property"`
		Tier        string          `json:"tier"`
		Seed        int64           `json:"seed"`
		Fingerprint string          `json:"fingerprint"`
		Prog        string          `json:"prog"`
		Case        int             `json:"case"`
		Spec        json.RawMessage `json:"spec"`
		Race        bool            `json:"race"`
	}
	if err := json.Unmarshal(rb, &r); err != nil {
		die(2, "replay: %v", err)
	}
	b, err := prepare(r.Race)
	defer b.cleanup()
	if err != nil {
		fmt.Printf("INCONCLUSIVE property=%s reason=%v\n", r.Property, err)
		return 3
	}
	a := newAgg()
	specPath := filepath.Join(b.scratch, "replay.json")
	os.WriteFile(specPath, rb, 0o644)
	runShard(b, r.Property, r.Tier, r.Seed, 0, 1, a, r.Prog, []string{"VH_REPLAY=" + specPath, fmt.Sprintf("VH_REPLAY_N=%d", n)})
	hits := 0
	other := map[string]int{}
	for _, v := range a.viol {
		if v.FP == r.Fingerprint {
			hits++
		} else {
			other[v.FP]++
		}
	}
	fmt.Printf("replay property=%s prog=%s runs=%d reproduced=%d other=%v inconclusive=%d\n", r.Property, r.Prog, a.evals, hits, other, len(a.inconcl))
	for i, m := range a.inconcl {
		if i < 2 {
			fmt.Printf("  inconclusive: %s\n", m)
		}
	}
	if hits > 0 {
		fmt.Printf("VIOLATION property=%s replay=%s\n", r.Property, path)
		return 1
	}
	return 0
}
